#!/bin/sh
# tools/import_seeded.sh <ID> <variant> [patchfile]
# Verifies a sub-agent's seeded change in a scratch worktree of /repo's HEAD (tests pass with the patch,
# demo passes without and fails with it) and, if confirmed, stores it as /verif/seeded/<ID>_<variant>/.
ID="$1"; V="$2"; SRC="/tmp/seeded_out/$ID/$V"; PATCH="${3:-$SRC/patch.diff}"
WT="/tmp/wtv/${ID}_$V"; OUT="/verif/seeded/${ID}_$V"
rm -rf "$WT"; mkdir -p /tmp/wtv
git -C /repo worktree add -q --detach "$WT" HEAD || exit 2
cd "$WT" || exit 2
PYTHONPATH="$WT" timeout 300 /venv/bin/python -W ignore "$SRC/demo.py" > /tmp/wtv/${ID}_$V.demo0.log 2>&1; D0=$?
if ! git apply "$PATCH" 2>/tmp/wtv/${ID}_$V.apply.log && ! git apply --3way "$PATCH" 2>>/tmp/wtv/${ID}_$V.apply.log && ! patch -p1 --fuzz=3 -s < "$PATCH" 2>>/tmp/wtv/${ID}_$V.apply.log; then
  echo "$ID $V: patch does not apply to HEAD"; cat /tmp/wtv/${ID}_$V.apply.log | head -3
  cd /; git -C /repo worktree remove --force "$WT"; exit 3
fi
/venv/bin/python -W ignore -m pytest -q -p no:cacheprovider --timeout=900 pyPRISM > /tmp/wtv/${ID}_$V.tests.log 2>&1; T=$?
TP=$(grep -Eo '[0-9]+ passed' /tmp/wtv/${ID}_$V.tests.log | tail -1)
PYTHONPATH="$WT" timeout 300 /venv/bin/python -W ignore "$SRC/demo.py" > /tmp/wtv/${ID}_$V.demo1.log 2>&1; D1=$?
git diff > /tmp/wtv/${ID}_$V.rebased.diff
cd /; git -C /repo worktree remove --force "$WT"
echo "$ID $V: demo_unpatched=$D0 tests_exit=$T ($TP) demo_patched=$D1"
if [ "$D0" = 0 ] && [ "$T" = 0 ] && [ "$D1" != 0 ]; then
  mkdir -p "$OUT"
  cp /tmp/wtv/${ID}_$V.rebased.diff "$OUT/patch.diff"; cp "$SRC/demo.py" "$OUT/demo.py"
  /venv/bin/python - "$SRC/meta.json" "$OUT/meta.json" "$ID" "$V" "$TP" "$D0" "$D1" <<'PY'
import json, sys, subprocess
src, dst, pid, v, tp, d0, d1 = sys.argv[1:8]
try:
    m = json.load(open(src))
except Exception:
    m = {}
m.update({'property': pid, 'variant': v,
          'confirmed': {'repo_head': subprocess.check_output(['git', '-C', '/repo', 'rev-parse', '--short', 'HEAD']).decode().strip(),
                        'ran': ['demo.py on the unchanged tree (exit %s)' % d0,
                                'pytest pyPRISM with the patch (%s)' % tp,
                                'demo.py with the patch (exit %s)' % d1]}})
json.dump(m, open(dst, 'w'), indent=1)
PY
  echo "  kept as $OUT"
else
  echo "  NOT kept"
fi
