#!/usr/bin/env python3
"""Regenerates /verif/MANIFEST.json from the table below and validates it against the schema.
Run after adding or changing a check:  python3 tools/gen_manifest.py"""
import json
import os
import sys

HERE = os.path.dirname(os.path.dirname(os.path.abspath(__file__)))

# id -> (design_ref, technique, level text, level note)
CLAIMED = {}


def claim(pid, ref, technique, text, note, category='model_checking'):
    CLAIMED[pid] = dict(ref=ref, technique=technique, text=text, note=note, category=category)


NOT_APPLICABLE = {
    'C02': 'approximate agreement with a continuum-limit closed form (error = O(dr), must shrink under refinement): '
           'no exact finite instance exists for TLC to enumerate and a trace spec could only rubber-stamp a floating-point '
           'convergence study, i.e. a change of technique; its prefactor content is decided piecewise by C01, C04, C05, C08, C09, C16',
}

PENDING = 'specification module and conformance harness for this property are not built yet in this session (planned: DESIGN.md section 4)'

claim('C14', 'DESIGN.md 4/C14',
      'TLA+ spec Tables.tla model-checked with TLC (refinement of the symmetric-map reference by the loop-shaped table, isolation '
      'invariants); TLC-exported state graph replayed edge by edge, along all short paths and random walks on the real '
      'PairTable/ValueTable; recorded traces validated against Trace_Tables.tla',
      'Exhaustive TLC exploration of the table state machine for 2-3 types (every reachable alias partition x contents, every public '
      'call) with the property statements as invariants/action properties, bound to the code by replaying every exported transition '
      'on the real classes and comparing contents, object identity and observations after every step.',
      'Bounded: 2 types (PairTable) / 3 types (ValueTable) with replay, 3 types invariants only; payload = 2-element list; trusted: TLC, '
      'the walker, the projection (identity via `is`).')

claim('C15', 'DESIGN.md 4/C15',
      'TLA+ spec DensDiam.tla (setter loops with the derived tables as stored state) model-checked with TLC; exported state graph '
      'replayed on the real Density/Diameter for several concretisations of the values (scaled and nearly-equal families); recorded '
      'traces validated against Trace_DensDiam.tla',
      'Exhaustive TLC exploration of all assignment/re-assignment histories for 3 (4 in thorough) types with PairOK, SiteOK, TotalOK, '
      'SigmaOK, VolumeOK as invariants on the STORED derived entries; every exported transition and all short paths replayed on the '
      'real classes; suite and driver traces validated by TLC.',
      'Bounded: 3-4 types, value set of three values per concretisation; float comparison 1e-12 relative; trusted: TLC, walker, observer.')

claim('C07', 'DESIGN.md 4/C07',
      'TLA+ spec Domain.tla (constructor/setter machine with exact monomial spacings; MatrixArray transform guard machine) model-checked '
      'with TLC; every setter history replayed on real Domain objects for several scales, the transform statements decided on basis '
      'vectors against the dense matrices of the transform pair defined in the spec; Domain traces validated against Trace_Domain.tla',
      'TLC checks Conjugate, GridSize, NotStale, FreshEquivalent, RoundTripIsIdentity on all setter histories up to the bound and the '
      'transform guard as an action property; conformance in both directions binds the real Domain to it.',
      'Bounded: listed lengths/spacings x scales, MaxSteps setter calls; transforms decided on a full basis for n <= 256, on 52 basis '
      'vectors above; trusted: TLC, harness/refmath.py (dense formula), numpy.')

claim('C08', 'DESIGN.md 4/C08',
      'discrete transform pair and its prefactors defined in the TLA+ spec Domain.tla as exact monomials (TLC: ForwardIs4Pi, '
      'BackwardIs1Over2Pi2, RoundTripIsIdentity); real coefficient arrays and both transforms compared absolutely with the specified '
      'dense matrices on every Domain state TLC enumerates; first-order convergence to the closed forms by refinement study '
      '(model validation)',
      'The prefactor clause is decided by TLC + conformance (a compensating change of both prefactors violates two named statements); '
      'the convergence clause is validated numerically on the analytic families for the specified formula and the code.',
      'Convergence is real analysis: validated on Gaussian/Yukawa/exponential/sphere families, n = 128..2048 at r_max = 25.6, not proved.')

claim('C13', 'DESIGN.md 4/C13',
      'TLA+ spec MatrixArray.tla (objects = buffer reference + space flag, exact rational data) model-checked with TLC; every exported '
      'transition replayed on real MatrixArray/IdentityMatrixArray objects (data vs TLC rationals, np.shares_memory vs buffer relation, '
      'exception class vs SpaceRule); skeleton paths re-run with random data of rank 1-5 / length 1-64 against a TLC-validated '
      'per-matrix reference interpreter',
      'TLC checks NoAliasOutOfPlace, InPlaceTouchesOnlyLhs, RefusedLeavesEverything, SpaceRule, InvertIsInverse over all operator x '
      'operand-kind x object (incl. self-aliased) combinations to depth 2 (deeper by simulation in the thorough tier) and all 3x3 '
      'space-flag pairs; conformance by replay of every edge.',
      'Bounded depth; exact instances rank 2, length 1-2; other shapes through the reference interpreter; result space flag not judged.')

claim('C06', 'DESIGN.md 4/C06',
      'TLA+ spec PostProc.tla (flag / representation / content of the three stored arrays; calculate variants, user transforms, '
      're-solve) model-checked with TLC; all label sequences to depth 3 (4 thorough) and random depth-12 sequences replayed on real '
      'solved 2- and 3-component PRISM objects with the projected state selecting the successor in the TLC graph; calculate/solve '
      'traces of the repository tests and drivers validated against Trace_PostProc.tla',
      'TLC checks ContentsPristine, FlagTruthful, NoSpaceError, ResultDependsOnlyOnContents, SolveLeavesRoot on the (nondeterministic) '
      'specification; conformance compares, after every real call, the stored arrays with the pristine content in the flagged space and '
      'the return value with that of a fresh identically solved object.',
      'Two concrete solved systems (rank 2, 3; 256-point dyadic grid); tolerances 1e-9 (arrays) / 1e-8 (returns); post-call flags not '
      'prescribed; trusted: TLC, NondetWalker, deepcopy-as-fresh-object, the object\'s own Domain for moving references between spaces.')

claim('C05', 'DESIGN.md 4/C05',
      'TLA+ spec Calculate.tla: the seven calculate functions as definitions in exact rational arithmetic on hand-populated, '
      'deliberately non-self-consistent instances (rank 2-4); TLC evaluates them and checks SymmetricOutputs, '
      'SpinodalIsBlockDeterminant, ExtrapolationIsQuadratic, ChiEqualVolumes; every exported evaluation replayed on a real PRISM object '
      'populated with the same numbers for all initial-space combinations of the stored arrays; S = (I - Omega C)^-1 Omega on solved objects',
      'Each definition is stated once, in TLA+, from the property text; TLC computes the expected value of every function x flag x pair '
      '(incl. the later pairs of 3- and 4-component systems) exactly; the real functions must reproduce them to 1e-9.',
      'Instances are seeded integer/rational arrays of 4 wavenumbers; chi for unequal volumes judged up to a positive prefactor; '
      'PY solvation judged where 1 + CSC > 0; logarithm and back-transform applied by the harness (numpy, reference dense matrices).')

claim('C16', 'DESIGN.md 4/C16',
      'TLA+ spec SystemLife.tla (configuration items with versions, PRISM objects as frozen snapshots) model-checked with TLC over '
      'all Systems with <= 2 items missing and all edit/create/solve histories to a bounded depth; every behaviour replayed on real '
      'System/PRISM objects with, after every step, a deep fingerprint of the System and the wiring of every live PRISM against fresh '
      'potentials/omegas built from its snapshot, solved results against freshly built Systems; System events of the repository tests '
      'and sweep drivers validated against Trace_SystemLife.tla',
      'TLC checks CreateRaisesIffIncomplete, NeverStartsOnPartialSystem, SystemUntouchedByCreateSolve, SnapshotFrozen, '
      'SnapshotFaithful, SweepEqualsFresh; conformance binds each to the real objects.',
      'Two site types, two versions per item, <= 2 live PRISM objects, 3 (4) steps; solved results at 1e-5; unconverged solves skipped.')

claim('C10', 'DESIGN.md 4/C10',
      'TLA+ specs Term.tla/ClosureDefs.tla/ClosurePotential.tla: every potential as branch terms, the branch at every grid point decided '
      'by TLC in integer arithmetic (half units of dr), sigma defaulting as the action Wire; TLC checks CoreIsContactInclusive, '
      'LJZeroBeyondCut, LJShiftContinuous, WCAStatements, SigmaDefault, CalculatePure and reduces exact instances; the exported '
      'potential-object graph replayed on the real classes for several grids/parameter sets/sigma styles (Wire through the real '
      'createPRISM), every returned array compared point by point with the TLC-selected term',
      'TLC decides for every potential-object state and grid point which documented branch applies (contact = core) and checks the '
      'cut-off/shift/WCA statements on the definitions; conformance compares the real classes with it on every edge, all paths to '
      'depth 3 and random walks, incl. exact rational instances and integer-dtype grids.',
      'Bounded: 8 (12) grid points, listed sigma/cut/diameter values, 5 (9) concretisations; value of an unshifted LJ exactly at r_cut '
      'not judged; trusted: TLC, harness/termeval.py (validated against TLC REval each run).')

claim('C09', 'DESIGN.md 4/C09',
      'TLA+ specs Term.tla/ClosureDefs.tla/ClosurePotential.tla: the four closure relations and the hard-core branch as terms; TLC '
      'checks VanishAtZero, WeakCoupling (symbolic derivatives at the origin), CoreBranchValue, UnflaggedOnOverlap, ClosureBranches, '
      'CalculatePure; the exported closure-object graph (classes and aliases x flag x sigma x potential family x gamma family) '
      'replayed on the real closures with point-by-point comparison against the TLC-selected term, purity, elementwise and alias checks; '
      'weak-coupling ratio test on the code',
      'The relations are stated once in TLA+; TLC proves the limit statements on them symbolically and decides the branch per grid '
      'point; the real closures must reproduce the selected term on every seeded gamma/potential array, bitwise on the core branch.',
      'Bounded: 8 (12) grid points, 4 gamma x 3 potential families, 2 (5) grids; either published Martynov-Sarkisov form accepted; '
      'grid points coinciding with sigma only up to float noise not judged here (C10).')

claim('C03', 'DESIGN.md 4/C03',
      'TLA+ spec HardCore.tla over ClosureDefs.tla: TLC enumerates every valid two-component configuration (closure x flag x potential '
      'per pair, diameters, kT), decides which pairs have a hard core and their core extent, and checks that the composed term '
      'potential -> closure reduces to -1 - gamma (CoreValueHoldsAll, float64 underflow assumption explicit); every Stride-th '
      'configuration built as a real System and run through the real PRISM.cost with seeded trial vectors (closure.value == -1 - GammaIn '
      'bitwise on core points) and a subset solved (|g| <= |fun|/r on core points); every PRISM.cost evaluation during the solves of the '
      'repository PRISM/CalcPRISM tests and of the drivers validated against Trace_HardCore.tla (hard-core classification by the specification)',
      'Exhaustive over configurations at the specification level; sampled (deterministic stride) replay through the real cost function '
      'with zero/small/large trial vectors on a dyadic and a non-dyadic grid, plus solved objects.',
      'Two site types; densities, omegas and potential parameters seeded; unconverged solves skipped; MSA/MS unflagged on divergent '
      'potentials excluded as documented.')

claim('C12', 'DESIGN.md 4/C12',
      'TLA+ spec OmegaSource.tla (source described relative to the Domain: origin x length relation x k relation on both sides of the '
      'allclose boundary; stages constructed -> calculate -> createPRISM -> first cost, MutateCaller interleaved; nondeterministic '
      'where the statement leaves the rejection stage open) model-checked with TLC (NeverFromMismatch, RejectStage, '
      'MatchedNeverRejected, VerbatimOnMatch); every action sequence replayed on real FromArray/FromFile objects, files and Systems '
      'with the projected stage selecting the successor; FromArray/FromFile.calculate events of the repository tests and a driver '
      'validated against Trace_OmegaSource.tla',
      'Exhaustive over source descriptions x Domain configurations x rank x action orders at the specification level; each replayed '
      'on the real classes (bitwise verbatim comparison, leak detection through re-run histories), plus trace validation.',
      'Bounded: 12 grid points, one concretisation per description and seed (3 in thorough); exception class not judged.')

claim('C11', 'DESIGN.md 4/C11',
      'TLA+ spec OmegaModels.tla: the defining pair sum (1/N) Sum_ij w_|i-j|, its weight form, the closed form for geometric weights '
      'and the ring sum checked against each other by TLC in exact rational arithmetic for every N <= 8 (10) and sample weights '
      '(ClosedFormEqualsPairSum, WeightFormEqualsPairSum, TermsAgreeWithDefinitions, RingSum, LimitAtOne, LimitAtZero, Bounded, '
      'PairCount, KoyamaValidity); the exported weight-form terms evaluated for the real N (up to 10^4) and k and the model-object '
      'machine (Construct / Calculate on grid families, Koyama parameter cases) replayed on the real classes; exact points against '
      'TLC rationals; PairCountInd.tla (Apalache, symbolic N): the total weight of the defining sum is N^2 for every chain length; '
      'dimensional analysis of the definitions (LenDeg) bound by evaluating every model in other units of length',
      'The definitions and their equivalence are TLC-checked statements; every shipped model class is compared with the exported '
      'pair-sum term on Domain grids and 1e-4..1e3, with limits, bound, finiteness, independence of the other k and parameter rejection.',
      'Tolerance 1e-8 relative (1e-10 at exact points); Koyama / NFJC weights are the models own kernels (structure, limits, bound, '
      'totality judged) and are replayed for N <= 12 (40) only; float conditioning is observed through the comparison, not proved.')

claim('C17', 'DESIGN.md 4/C17',
      'TLA+ spec Units.tla: the six conversion formulas as terms with the unit factors of each configuration resolved by TLC; TLC '
      'checks Defined, LinearOrAffine, CelsiusIsKelvinMinus27315, NanometerIsTenTimesAngstrom, the definition identities and '
      'CallsArePure; the converter machine (Construct(length unit, energy unit); Call(method, argument kind)) replayed on the real '
      'UnitConverter for several characteristic values: totality, magnitude against the evaluated term with exact SI constants, unit, '
      'elementwise arrays, converter unchanged',
      'A finite definition table with no interesting state: exhaustive over 15 configurations x 6 methods x 3 argument kinds at the '
      'specification level, each executed on the real class.',
      'Weakest fit of the technique (stateless); characteristic values sampled (2 / 5 sets); tolerance 1e-12.')

claim('C01', 'DESIGN.md 4/C01',
      'TLA+ spec PrismCore.tla (one cost evaluation as the sequence of the code statements in exact rational arithmetic; TLC: PrismEq, '
      'SkIdentity, HSymmetric, GammaIsHMinusC, PipelineIsCost, a named deviation shown to violate them) with every instance replayed as one '
      'wavenumber of a real PRISM object (omega via FromArray, C-hat via the potential of an MSA closure) against TLC rationals; TLA+ spec '
      'PrismSolve.tla (what a solve reporting success may leave behind) with TLC-enumerated configuration x method x guess sampled and solved, '
      'the stored arrays judged by an evaluator working from the user inputs only; prism.solve events of the repository tests and drivers '
      'validated against Trace_PrismSolve.tla',
      'The algebra stage pins site/pair density, product order, inverse and division independently of the cost function own arithmetic; the '
      'solved stage decides the two statements on real converged objects with the bound the statement gives (solver residual x local slope).',
      'Seeded instances rank 1-3; 24 (260) judged successful solves on 256-point dyadic grids, methods krylov/hybr (+df-sane, broyden1); '
      'unconverged solves skipped; Martynov-Sarkisov excluded (recorded C09 finding).')

claim('C04', 'DESIGN.md 4/C04',
      'TLA+ specs PrismCore.tla (PermEquivariant over all permutations of rank 2-3 instances, SplitMonatomic, SplitDiblock, '
      'ScalarPrismEq in exact rational arithmetic), ClosureDefs.tla (EnergyLinear) and Reformulate.tla (which reformulation applies to '
      'which base system; ContentPreserved) model-checked with TLC; every exported (base system, reformulation) edge executed on real '
      'Systems: cost_reformulated(transform(x)) = transform(cost_base(x)) for seeded trial vectors (solver independent), and for a sample '
      'the converged pair correlations / structure factors / pmf of both systems compared',
      'The invariances are TLC-checked identities of one cost evaluation on exact instances; conformance decides them on the real cost '
      'function for every base pattern x every permutation / split ratio / scale, and on converged results for a sample.',
      'Base systems: 3 ranks x 4 closure x 3 potential x 4 omega patterns with seeded densities; cost level 1e-9, solved level 1e-4 '
      '(solves to fatol 1e-10); 10 (60) solved pairs; unconverged solves skipped.')

claim('C18', 'DESIGN.md 13.6',
      'TLA+ spec Debyer.tla: the chunk table (_chunk) and the OpenMP schedule of one frame (static schedule, private accumulation rows, '
      'load/store grain, barrier, sequential reduction; every pair carries a distinct integer weight) - TLC explores every interleaving '
      'for small instances and checks ResultIsDebyeSum, RowsArePrivate, ReduceAfterBarrier, Terminates (weak fairness), ChunkPartition '
      '(n <= 12, chunks <= 14), OrderIndependent; a shared-row deviation must violate them.  ChunkInd.tla (same definitions through '
      'Chunk.tla) states the chunk partition for EVERY number of sites and chunks and is discharged symbolically by Apalache (one SMT '
      'query over unbounded integers; a wrong chunking must be refuted in the same run).  The extension is rebuilt from /repo '
      '(cython + gcc -fopenmp, scratch directory); the real _chunk is compared with the specification chunk table, and omega of seeded '
      'trajectories with the direct float64 Debye sum for every chunk count x OMP_NUM_THREADS and for permuted site orders',
      'A schedule property: exhaustive over interleavings at the specification level for small instances; the binding compares the real '
      'chunk tables with the specified ones (so the TLC-checked partition applies to the code) and the end-to-end result across chunk and '
      'thread counts, including counts that do not divide or exceed the number of sites.',
      'Possible since the fix of Debyer.pyx integer types (the extension builds with the installed cython/numpy); float32 accumulation: '
      'agreement judged at 5e-5; races that do not change the result within that tolerance on this machine are not observable by the binding '
      '(they are excluded by RowsArePrivate at the specification level only).')

ALL = ['C%02d' % i for i in range(1, 19)]


def main():
    checks = []
    for pid in ALL:
        if pid not in CLAIMED:
            continue
        c = CLAIMED[pid]
        checks.append({
            'property_id': pid,
            'quick_cmd': './check %s --tier quick' % pid,
            'thorough_cmd': './check %s --tier thorough' % pid,
            'evidence_file': 'evidence/%s.json' % pid,
            'replay_cmd_template': './check %s --replay {path}' % pid,
            'engine': 'tlc+replay',
            'level_claimed': {'category': c['category'], 'text': c['text'], 'design_ref': c['ref']},
            'level_note': c['note'],
            'technique': c['technique'],
        })
    na = []
    for pid in ALL:
        if pid in CLAIMED:
            continue
        na.append({'property_id': pid, 'reason': NOT_APPLICABLE.get(pid, PENDING)})
    man = {
        'version': 1,
        'setup_cmd': 'sh tools/setup.sh',
        'hooks': {
            'guard': 'PYPRISM_VERIF_TRACE',
            'enable': 'no build step: checks import pyPRISM from /repo (PYTHONPATH) and set PYPRISM_VERIF_TRACE=<ndjson file> '
                      'for the runs whose traces are validated',
            'baseline_off_cmd': 'cd /repo && env -u PYPRISM_VERIF_TRACE /venv/bin/python -m pytest -ra -q -p no:cacheprovider '
                                '--timeout=900 --continue-on-collection-errors',
            'source_commits': HOOK_COMMITS,
            'add_only': True,
        },
        'engines': [
            {'name': 'tlc+replay', 'path': 'check', 'serves_properties': sorted(CLAIMED),
             'kind_free_text': 'explicit TLA+ specification (spec/*.tla) checked with TLC 1.8; specification behaviours replayed into '
                               'pyPRISM and traces recorded from pyPRISM validated against Trace_*.tla'}],
        'checks': checks,
        'not_applicable': na,
        'notes': 'All checks: ./check <ID> --tier quick|thorough; exit 0 held, 1 VIOLATION, 2 machinery failure. '
                 'Known findings: known_findings.json. Seeded changes: seeded/<id>/.',
    }
    path = os.path.join(HERE, 'MANIFEST.json')
    with open(path, 'w') as fh:
        json.dump(man, fh, indent=1)
        fh.write('\n')
    try:
        import jsonschema
        schema = json.load(open('/root/.vp/MANIFEST.schema.json'))
        jsonschema.validate(man, schema)
        print('MANIFEST.json valid: %d checks, %d not_applicable' % (len(checks), len(na)))
    except ImportError:
        print('MANIFEST.json written (jsonschema not available, not validated)')


HOOK_COMMITS = ['d61a665', 'c0ef968']

if __name__ == '__main__':
    main()
