#!/bin/sh
# tools/seeded_matrix.sh [tier] [ids...]: run each seeded change's own property check against a scratch
# worktree of /repo with the change applied (VERIF_REPO), evidence/replays redirected to scratch (VERIF_OUT).
# Prints one line per seeded change: caught (exit 1 + VIOLATION) / MISSED (exit 0) / ERROR.
TIER="${1:-quick}"; shift
IDS="$*"; [ -z "$IDS" ] && IDS="$(ls /verif/seeded)"
mkdir -p /tmp/wtm; RUNID="r$$"
run_one() {
  d="$1"; prop="$(echo "$d" | cut -d_ -f1)"; props="${PROPS:-$prop}"
  WT="/tmp/wtm/${RUNID}_$d"; rm -rf "$WT" "/tmp/wtm/out_${RUNID}_$d"
  git -C /repo worktree add -q --detach "$WT" HEAD 2>/dev/null || { echo "$d: worktree failed"; return; }
  if ! git -C "$WT" apply "/verif/seeded/$d/patch.diff" 2>/dev/null; then echo "$d: PATCH-DOES-NOT-APPLY"; git -C /repo worktree remove --force "$WT"; return; fi
  for p in $props; do
    mkdir -p "/tmp/wtm/out_${RUNID}_$d"
    ( cd /verif && VERIF_REPO="$WT" VERIF_OUT="/tmp/wtm/out_${RUNID}_$d" timeout 3600 ./check "$p" --tier "$TIER" > "/tmp/wtm/${RUNID}_$d.$p.log" 2>&1 ); rc=$?
    clauses="$(grep -E '^  clause=' "/tmp/wtm/${RUNID}_$d.$p.log" | sed 's/^  clause=\([A-Za-z._]*\).*/\1/' | sort -u | tr '\n' ' ')"
    case $rc in 1) v=caught;; 0) v=MISSED;; *) v="ERROR($rc)";; esac
    echo "$d check=$p $v $clauses"
    echo "$d check=$p $v $clauses" >> /verif/seeded/matrix_log.txt
  done
  git -C /repo worktree remove --force "$WT"; rm -rf "/tmp/wtm/out_${RUNID}_$d"
}
N=0
for d in $IDS; do
  run_one "$d" &
  N=$((N+1)); [ $((N % 5)) -eq 0 ] && wait
done
wait
git -C /repo worktree prune
