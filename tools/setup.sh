#!/bin/sh
# MANIFEST.setup_cmd: nothing to build; verify the tool chain is present and create output dirs.
set -e
cd "$(dirname "$0")/.."
mkdir -p evidence replays
test -f /opt/veriftools/tla/tla2tools.jar
java -cp /opt/veriftools/tla/tla2tools.jar:/opt/veriftools/tla/CommunityModules-deps.jar tlc2.TLC -h >/dev/null 2>&1 || true
/venv/bin/python -B -W ignore -c "import numpy, scipy, sys; sys.path.insert(0, '/repo'); import pyPRISM"
/venv/bin/python -c "import Cython" && command -v gcc >/dev/null   # C18 rebuilds the Debyer extension in a scratch directory
command -v apalache-mc >/dev/null   # C18: the chunk partition for every n, c (spec/ChunkInd.tla)
echo "setup ok"
