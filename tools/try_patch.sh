#!/bin/sh
# tools/try_patch.sh <patch.diff> <ID> [tier]: apply a seeded change to /repo, run the check, undo it.
P="$1"; ID="$2"; TIER="${3:-quick}"
P="$(cd "$(dirname "$P")" && pwd)/$(basename "$P")"; cd /repo || exit 2
git diff --quiet || { echo "/repo has uncommitted changes"; exit 2; }
git apply "$P" || { echo "patch does not apply"; exit 2; }
cd /verif && ./check "$ID" --tier "$TIER" > /tmp/try_patch_$ID.log 2>&1; rc=$?
git -C /repo checkout -- . ; git -C /repo clean -fdq pyPRISM
grep -E "^VIOLATION|^KNOWN|MACHINERY|tier=" /tmp/try_patch_$ID.log | head -8
echo "exit=$rc"
