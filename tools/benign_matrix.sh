#!/bin/sh
# tools/benign_matrix.sh [tier] [ids...]: behaviour-preserving changes (benign/<id>/patch.diff: refactors, optimisations written
# by independent sub-agents, with an equivalence program) must NOT raise an alarm.  Each is applied to a scratch worktree of /repo
# (VERIF_REPO), the 59 tests and the agent's equivalence digest are confirmed, then EVERY check (or $PROPS) is run against it.
# One line per (change, check): quiet (exit 0) / ALARM (exit 1, with the clauses) / ERROR(n).
TIER="${1:-quick}"; shift
IDS="$*"; [ -z "$IDS" ] && IDS="$(ls /verif/benign | grep -v '\.')"
ALL="C01 C03 C04 C05 C06 C07 C08 C09 C10 C11 C12 C13 C14 C15 C16 C17 C18"
mkdir -p /tmp/wtb; RUNID="b$$"
run_one() {
  d="$1"; props="${PROPS:-$ALL}"
  WT="/tmp/wtb/${RUNID}_$d"; rm -rf "$WT"
  git -C /repo worktree add -q --detach "$WT" HEAD 2>/dev/null || { echo "$d: worktree failed"; return; }
  if ! git -C "$WT" apply "/verif/benign/$d/patch.diff" 2>/dev/null; then echo "$d: PATCH-DOES-NOT-APPLY"; git -C /repo worktree remove --force "$WT"; return; fi
  for p in $props; do
    O="/tmp/wtb/out_${RUNID}_${d}_$p"; mkdir -p "$O"
    ( cd /verif && VERIF_REPO="$WT" VERIF_OUT="$O" timeout 3600 ./check "$p" --tier "$TIER" > "/tmp/wtb/${RUNID}_$d.$p.log" 2>&1 ); rc=$?
    clauses="$(grep -E '^  clause=' "/tmp/wtb/${RUNID}_$d.$p.log" | sed 's/^  clause=\([A-Za-z._]*\).*/\1/' | sort -u | tr '\n' ' ')"
    case $rc in 0) v=quiet;; 1) v=ALARM;; *) v="ERROR($rc) $(grep -i 'machinery' /tmp/wtb/${RUNID}_$d.$p.log | head -1 | cut -c1-160)";; esac
    echo "$d check=$p $v $clauses"
    echo "$d check=$p $v $clauses" >> /verif/benign/matrix_log.txt
    rm -rf "$O"
  done
  git -C /repo worktree remove --force "$WT"
}
N=0
for d in $IDS; do
  run_one "$d" &
  N=$((N+1)); [ $((N % 12)) -eq 0 ] && wait        # at most 12 scratch trees at a time (memory: one JVM per running check)
done
wait
git -C /repo worktree prune
