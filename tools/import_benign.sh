#!/bin/sh
# tools/import_benign.sh <ID> [name]: confirms a sub-agent's behaviour-preserving change (/tmp/benign_out/<ID>/) in a scratch worktree:
# the patch applies, the 59 tests pass, and the agent's equivalence program prints the same digest on both trees; stores it as
# /verif/benign/<name>/ (default name B_<ID>).
ID="$1"; NAME="${2:-B_$ID}"; SRC="/tmp/benign_out/$ID"; WT="/tmp/wtv/$NAME"; OUT="/verif/benign/$NAME"
rm -rf "$WT"; mkdir -p /tmp/wtv
git -C /repo worktree add -q --detach "$WT" HEAD || exit 2
cd "$WT" || exit 2
PYTHONPATH="$WT" timeout 600 /venv/bin/python -W ignore "$SRC/equiv.py" > /tmp/wtv/$NAME.eq0 2>/dev/null; E0=$?
if ! git apply "$SRC/patch.diff" 2>/tmp/wtv/$NAME.apply.log; then echo "$NAME: patch does not apply"; cd /; git -C /repo worktree remove --force "$WT"; exit 3; fi
/venv/bin/python -W ignore -m pytest -q -p no:cacheprovider --timeout=900 pyPRISM > /tmp/wtv/$NAME.tests.log 2>&1; T=$?
TP=$(grep -Eo '[0-9]+ passed' /tmp/wtv/$NAME.tests.log | tail -1)
PYTHONPATH="$WT" timeout 600 /venv/bin/python -W ignore "$SRC/equiv.py" > /tmp/wtv/$NAME.eq1 2>/dev/null; E1=$?
cmp -s /tmp/wtv/$NAME.eq0 /tmp/wtv/$NAME.eq1; SAME=$?
cd /; git -C /repo worktree remove --force "$WT"
echo "$NAME: equiv_unpatched=$E0 tests_exit=$T ($TP) equiv_patched=$E1 digest_same=$SAME ($(wc -l < /tmp/wtv/$NAME.eq0) lines)"
if [ "$E0" = 0 ] && [ "$T" = 0 ] && [ "$E1" = 0 ] && [ "$SAME" = 0 ]; then
  mkdir -p "$OUT"; cp "$SRC/patch.diff" "$SRC/equiv.py" "$SRC/meta.json" "$SRC/argue.md" "$OUT/" 2>/dev/null
  echo "  kept as $OUT"
else
  echo "  NOT kept"
fi
