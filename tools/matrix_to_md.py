#!/usr/bin/env python3
"""tools/matrix_to_md.py <matrix log>... : writes seeded/MATRIX.md from the output lines of tools/seeded_matrix.sh"""
import json
import os
import re
import sys

HERE = os.path.dirname(os.path.dirname(os.path.abspath(__file__)))
rows = {}
for path in (sys.argv[1:] or [os.path.join(HERE, 'seeded', 'matrix_log.txt')]):
    for line in open(path):
        m = re.match(r'^(\S+) check=(\S+) (caught|MISSED|ERROR\(\d+\))\s*(.*)$', line.strip())
        if m:
            rows.setdefault(m.group(1), {})[m.group(2)] = (m.group(3), m.group(4).strip())
checks = sorted({c for r in rows.values() for c in r})
out = ['# Seeded changes x checks', '',
       'One line per seeded change (`seeded/<id>/`): what it needs in order to manifest, and for every check that was run against it',
       'whether it was caught (with the clauses that fired).  Produced by `tools/seeded_matrix.sh` + `tools/matrix_to_md.py`.', '']
for sid in sorted(rows):
    meta = {}
    try:
        meta = json.load(open(os.path.join(HERE, 'seeded', sid, 'meta.json')))
    except Exception:
        pass
    out.append('## %s' % sid)
    out.append('')
    out.append('*needs:* ' + str(meta.get('needs_to_manifest', '?')).replace('\n', ' ')[:700])
    out.append('')
    own = sid.split('_')[0]
    for c in checks:
        if c in rows[sid]:
            v, cl = rows[sid][c]
            if v != 'MISSED' or c == own:
                out.append('- %s%s: **%s** %s' % (c, ' (own property)' if c == own else '', v, cl))
    miss = [c for c in checks if rows[sid].get(c, ('',))[0] == 'MISSED' and c != own]
    if miss:
        out.append('- not affected / not caught by: ' + ' '.join(miss))
    out.append('')
open(os.path.join(HERE, 'seeded', 'MATRIX.md'), 'w').write('\n'.join(out))
print('%d seeded changes, %d checks' % (len(rows), len(checks)))
