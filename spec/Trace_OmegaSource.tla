------------------------- MODULE Trace_OmegaSource -------------------------
(***************************************************************************)
(* Validation of omega.fromarray / omega.fromfile events (every call of    *)
(* FromArray.calculate / FromFile.calculate in the repository's tests and  *)
(* the drivers) against spec/OmegaSource.tla.  The observer logs the       *)
(* relation of the source to the k it was evaluated on (origin, lenrel,    *)
(* krel), whether the call raised and whether the returned array is the    *)
(* source data bit for bit.  Each event must be the specification's        *)
(* Calculate action from a freshly constructed source of that description. *)
(***************************************************************************)
EXTENDS OmegaSource, Json, IOUtils, Sequences

Log == ndJsonDeserialize(IOEnv.TRACE_FILE)
VARIABLE l

Clause(name, c) == c \/ (PrintT(<<"REJECT", ToJson([l |-> l, clause |-> name, seq |-> Log[l].seq])>>) /\ FALSE)

TrCalc ==
    /\ l <= Len(Log) /\ Log[l].ev \in {"omega.fromarray", "omega.fromfile"}
    /\ l' = l + 1
    /\ LET e == Log[l]
           s == [origin |-> e.origin, lenRel |-> e.lenrel, kRel |-> e.krel]
           st == IF e.exc = "" THEN "calculated" ELSE "rejected"
       IN  /\ Clause("SourceDescription", s \in Sources)
           /\ Clause(IF e.exc = "" THEN "RejectOnMismatch" ELSE "AcceptOnMatch", CalcOutcomeAllowed(s, st))
           /\ Clause("VerbatimOnMatch", (e.exc = "" /\ Matched(s)) => e.verbatim = 1)
           /\ src' = s /\ stage' = st
           /\ last' = [act |-> "Calculate", ret |-> IF st = "calculated" THEN "verbatim" ELSE "raises"]
    /\ UNCHANGED <<dom, rank, mutated, regridded>>

TraceInit == Init /\ l = 1 /\ src = [origin |-> "array", lenRel |-> "equal", kRel |-> "none"] /\ dom = "dr" /\ rank = 1
TraceNext == TrCalc
TraceView == <<vars, l>>
TraceAccepted ==
    LET d == TLCGet("stats").diameter - 1
    IN  /\ PrintT(<<"TRACE", ToJson([accepted |-> d, total |-> Len(Log)])>>)
        /\ d = Len(Log)
=============================================================================
