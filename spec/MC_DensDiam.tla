---------------------------- MODULE MC_DensDiam ----------------------------
EXTENDS DensDiam, Json
MC_Vals == {2, 3, 5}      \* primes: every product / sum identifies the densities it came from
St      == [rho |-> rho, pair |-> pair, site |-> site, total |-> total, diam |-> diam, vol |-> vol, sig2 |-> sig2]
StPrime == [rho |-> rho', pair |-> pair', site |-> site', total |-> total', diam |-> diam', vol |-> vol', sig2 |-> sig2']
MCInit == Init /\ PrintT(<<"INIT", ToJson(St)>>)
View   == vars
Edge   == PrintT(<<"EDGE", ToJson([from |-> St, to |-> StPrime, l |-> last'])>>)
NoEdge == TRUE
=============================================================================
