------------------------------- MODULE Domain -------------------------------
(***************************************************************************)
(* pyPRISM.core.Domain (properties C07, C08).                              *)
(*                                                                         *)
(* Part 1 - the configuration state machine: constructor (from dr or from  *)
(* dk) and the three setters.  The arrays the object carries (r, k, the    *)
(* DST coefficient arrays) are state of their own, recorded as "what they  *)
(* were built from" (`built`), so that "never stale" is checkable.         *)
(* Spacings are monomials q*pi^e (module Mono): a user-given spacing is a  *)
(* rational, the conjugate one a rational multiple of pi.                  *)
(*                                                                         *)
(* Part 2 - the transform state machine on one MatrixArray: space flag,    *)
(* content as a word over {F, R} applied to the pristine content (with the *)
(* law R(F(t)) = F(R(t)) = t on one Domain), guard behaviour.              *)
(*                                                                         *)
(* The discrete transform pair is DEFINED here (C08):                      *)
(*   forward  F(f)_j = Fwd  * dr / k_j * SUM_i r_i f_i sin(pi(2i+1)(j+1)/2N)          *)
(*   backward R(g)_i = Bwd  * dk / r_i * [SUM_{j<N-1} k_j g_j sin(pi(2i+1)(j+1)/2N)   *)
(*                                        + (-1)^i k_{N-1} g_{N-1} / 2]               *)
(* with Fwd = 4 pi and Bwd = 1/(2 pi^2), the Riemann sums of the 3-D radial*)
(* Fourier pair.  pyPRISM realises them as scipy DST-II / DST-III (factor 2*)
(* each) times the coefficient arrays C2 = 2 pi r dr, C3 = k dk/(4 pi^2).  *)
(***************************************************************************)
EXTENDS Mono, Sequences, FiniteSets

CONSTANTS Lens,      \* lengths
          Spacings,  \* rationals <<n, d>> a user may assign to dr or dk
          MaxSteps   \* bound on the number of setter calls after construction

VARIABLES len, dr, dk,     \* Domain.length, .dr, .dk  (monomials)
          built,           \* what the grid arrays were built from: [len, dr, dk, nr, nk]
          steps,
          ma,              \* MatrixArray under transformation: [space, word]
          last

cvars == <<len, dr, dk, built, steps>>
vars  == <<len, dr, dk, built, steps, ma>>

\* ------------------------------------------------------------------ definitions
Conj(x, n)   == MDiv(MPi, MMul(x, MInt(n)))        \* pi / (x * n)
DSTFactor    == MInt(2)                            \* scipy's unnormalised DST-II / DST-III
C2           == <<2, 1, 1>>                        \* DST_II_coeffs  / (r * dr)  = 2 pi
C3           == <<1, 4, -2>>                       \* DST_III_coeffs / (k * dk)  = 1/(4 pi^2)
Fwd          == MMul(DSTFactor, C2)                \* prefactor of the forward sum
Bwd          == MMul(DSTFactor, C3)                \* prefactor of the backward sum
\* dst3(dst2(x)) = 2N x, hence to_real(to_fourier(f)) = C2*C3*2N*dr*dk * f
RoundTripFactor == MMul(MMul(MMul(C2, C3), MInt(2 * len)), MMul(dr, dk))

Build == [len |-> len', dr |-> dr', dk |-> dk', nr |-> len', nk |-> len']

\* ------------------------------------------------------------------ part 1
NewFromDr(n, q) ==
    /\ len' = n /\ dr' = MRat(q) /\ dk' = Conj(MRat(q), n)
    /\ built' = Build /\ steps' = 0 /\ UNCHANGED ma
    /\ last' = [act |-> "New", n |-> n, kind |-> "dr", q |-> q]

NewFromDk(n, q) ==
    /\ len' = n /\ dk' = MRat(q) /\ dr' = Conj(MRat(q), n)
    /\ built' = Build /\ steps' = 0 /\ UNCHANGED ma
    /\ last' = [act |-> "New", n |-> n, kind |-> "dk", q |-> q]

SetDr(q) ==
    /\ steps < MaxSteps
    /\ dr' = MRat(q) /\ dk' = Conj(MRat(q), len) /\ UNCHANGED len
    /\ built' = Build /\ steps' = steps + 1 /\ UNCHANGED ma
    /\ last' = [act |-> "SetDr", q |-> q]

SetDk(q) ==
    /\ steps < MaxSteps
    /\ dk' = MRat(q) /\ dr' = Conj(MRat(q), len) /\ UNCHANGED len
    /\ built' = Build /\ steps' = steps + 1 /\ UNCHANGED ma
    /\ last' = [act |-> "SetDk", q |-> q]

\* the real-space spacing is kept; the conjugate spacing follows the new length
SetLen(n) ==
    /\ steps < MaxSteps
    /\ len' = n /\ UNCHANGED dr /\ dk' = Conj(dr, n)
    /\ built' = Build /\ steps' = steps + 1 /\ UNCHANGED ma
    /\ last' = [act |-> "SetLen", n |-> n]

\* named deviations (enabled only in the self-test configurations)
SetLenStale(n) ==        \* pinned pyPRISM before the fix: dk is not recomputed
    /\ steps < MaxSteps
    /\ len' = n /\ UNCHANGED <<dr, dk>>
    /\ built' = Build /\ steps' = steps + 1 /\ UNCHANGED ma
    /\ last' = [act |-> "SetLenStale", n |-> n]

SetDkNoRebuild(q) ==     \* a setter that forgets to rebuild the real-space arrays
    /\ steps < MaxSteps
    /\ dk' = MRat(q) /\ dr' = Conj(MRat(q), len) /\ UNCHANGED len
    /\ built' = [built EXCEPT !.dk = dk'] /\ steps' = steps + 1 /\ UNCHANGED ma
    /\ last' = [act |-> "SetDkNoRebuild", q |-> q]

Unborn == [len |-> 0]
CInit == /\ len = 0 /\ dr = MOne /\ dk = MOne /\ built = Unborn /\ steps = 0
         /\ ma = [space |-> "Real", word |-> <<>>]
         /\ last = [act |-> "Init"]

CNext == \/ (len = 0 /\ \E n \in Lens, q \in Spacings : NewFromDr(n, q) \/ NewFromDk(n, q))
         \/ (len # 0 /\ \/ \E q \in Spacings : SetDr(q) \/ SetDk(q)
                        \/ \E n \in Lens : SetLen(n))

CNextDeviant == CNext \/ (len # 0 /\ \/ \E n \in Lens : SetLenStale(n)
                                     \/ \E q \in Spacings : SetDkNoRebuild(q))

\* ------------------------------------------------------------------ part 2
\* word: sequence of transforms applied to the pristine content, normalised by the round-trip law
Push(w, op) == IF w # <<>> /\ w[Len(w)] # op THEN SubSeq(w, 1, Len(w) - 1) ELSE Append(w, op)

MAToFourier ==
    /\ IF ma.space = "Fourier"
       THEN /\ UNCHANGED ma
            /\ last' = [act |-> "MAToFourier", raises |-> TRUE]
       ELSE /\ ma' = [space |-> "Fourier", word |-> Push(ma.word, "F")]
            /\ last' = [act |-> "MAToFourier", raises |-> FALSE]
    /\ UNCHANGED cvars

MAToReal ==
    /\ IF ma.space = "Real"
       THEN /\ UNCHANGED ma
            /\ last' = [act |-> "MAToReal", raises |-> TRUE]
       ELSE /\ ma' = [space |-> "Real", word |-> Push(ma.word, "R")]
            /\ last' = [act |-> "MAToReal", raises |-> FALSE]
    /\ UNCHANGED cvars

\* the user overrides the flag (MatrixArray.space is a public attribute)
MARelabel(s) ==
    /\ ma.space # s /\ Len(ma.word) < 2
    /\ ma' = [ma EXCEPT !.space = s]
    /\ UNCHANGED cvars
    /\ last' = [act |-> "MARelabel", space |-> s]

TNext == MAToFourier \/ MAToReal \/ \E s \in {"Real", "Fourier"} : MARelabel(s)

\* ------------------------------------------------------------------ properties
Born        == len # 0
Conjugate   == Born => MMul(MMul(dr, dk), MInt(len)) = MPi
GridSize    == Born => built.nr = len /\ built.nk = len
NotStale    == Born => built.len = len /\ built.dr = dr /\ built.dk = dk
\* indistinguishable from a freshly constructed Domain(length, dr = dr)
FreshEquivalent == Born => /\ dk = Conj(dr, len)
                           /\ built = [len |-> len, dr |-> dr, dk |-> Conj(dr, len), nr |-> len, nk |-> len]
RoundTripIsIdentity == Born => RoundTripFactor = MOne
ForwardIs4Pi        == Fwd = <<4, 1, 1>>
BackwardIs1Over2Pi2 == Bwd = <<1, 2, -2>>

\* transforms: never more than one un-cancelled transform while the flag is honest
SpaceGuard == [][/\ (last'.act = "MAToFourier" /\ last'.raises) => (ma.space = "Fourier" /\ ma' = ma)
                 /\ (last'.act = "MAToReal" /\ last'.raises)    => (ma.space = "Real" /\ ma' = ma)
                 /\ (last'.act = "MAToFourier" /\ ~last'.raises) => ma'.space = "Fourier"
                 /\ (last'.act = "MAToReal" /\ ~last'.raises)    => ma'.space = "Real"]_<<vars, last>>
WordBounded == Len(ma.word) <= 3
=============================================================================
