--------------------------- MODULE Trace_HardCore ---------------------------
(***************************************************************************)
(* Validation of prism.cost events (every evaluation of the cost function  *)
(* during the solves of the repository's tests and of the drivers) against *)
(* the statement of C03.  The observer logs, per site pair, the closure    *)
(* class, its flag, the potential class, the number of grid points with    *)
(* r <= sigma of that pair and how many of them violate                    *)
(* closure.value = -1 - GammaIn bitwise.  WHICH pairs have a hard core is  *)
(* decided here, by HardCorePair of ClosureDefs.  The same events carry,   *)
(* per pair, the number of points outside the core at which the output is  *)
(* not the closure relation of ClosureDefs (C09, clause ClosureRelation).  *)
(***************************************************************************)
EXTENDS ClosureDefs, Json, IOUtils

Log == ndJsonDeserialize(IOEnv.TRACE_FILE)
VARIABLE l

Clause(name, c) == c \/ (PrintT(<<"REJECT", ToJson([l |-> l, clause |-> name, seq |-> Log[l].seq])>>) /\ FALSE)
KnownClos == {"PercusYevick", "PY", "HyperNettedChain", "HNC", "MeanSphericalApproximation", "MSA", "MartynovSarkisov", "MS"}
Hard(p) == p.clos \in KnownClos /\ HardCorePair(Canon(p.clos), p.flag = 1, p.pot)

TrCost ==
    /\ l <= Len(Log) /\ Log[l].ev = "prism.cost"
    /\ l' = l + 1
    /\ LET e == Log[l]
       IN  \/ e.judged = 0          \* trial vector outside the stated range (|gamma| beyond the underflow assumption): nothing claimed
           \/ /\ Clause("HardCoreValue", \A i \in 1 .. Len(e.pairs) : Hard(e.pairs[i]) => e.pairs[i].bad = 0)
              \* C09: outside the core every pair's output is its closure relation (relbad = -1: not evaluated, nothing claimed;
              \* Martynov-Sarkisov is the recorded finding and is not used by the tests and drivers)
              /\ Clause("ClosureRelation", \A i \in 1 .. Len(e.pairs) :
                           (e.pairs[i].clos \in KnownClos /\ Canon(e.pairs[i].clos) # "MS") => e.pairs[i].relbad <= 0)

TraceInit == l = 1
TraceNext == TrCost
TraceView == l
TraceAccepted ==
    LET d == TLCGet("stats").diameter - 1
    IN  /\ PrintT(<<"TRACE", ToJson([accepted |-> d, total |-> Len(Log)])>>)
        /\ d = Len(Log)
=============================================================================
