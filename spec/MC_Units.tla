------------------------------ MODULE MC_Units ------------------------------
EXTENDS Units, Json
St      == [conv |-> conv]
StPrime == [conv |-> conv']
MCInit == Init /\ PrintT(<<"INIT", ToJson(St)>>)
View   == conv
Edge   == PrintT(<<"EDGE", ToJson([from |-> St, to |-> StPrime, l |-> last'])>>)
NoEdge == TRUE
=============================================================================
