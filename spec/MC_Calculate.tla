---------------------------- MODULE MC_Calculate ----------------------------
EXTENDS Calculate, Json
St      == [inst |-> inst]
StPrime == [inst |-> inst']
MCInit == Init /\ PrintT(<<"INIT", ToJson(St)>>)
View   == vars
Edge   == PrintT(<<"EDGE", ToJson([from |-> [seed |-> inst.seed], to |-> [seed |-> inst'.seed], l |-> last'])>>)
NoEdge == TRUE
=============================================================================
