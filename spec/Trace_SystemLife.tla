-------------------------- MODULE Trace_SystemLife --------------------------
(***************************************************************************)
(* Validation of System.check / createPRISM / solve events recorded from   *)
(* real executions against spec/SystemLife.tla.  Items are the six tables  *)
(* (density, diameter, potential, closure, omega, domain) plus kT; before  *)
(* each call the hook logs which of them are fully specified (`have`), and *)
(* after it the exception class and whether a deep fingerprint of the      *)
(* System is unchanged (`untouched`).  Each event: bind the configuration  *)
(* to `have`, take the specification's own Create action, and require the  *)
(* logged outcome to be the one the specification produces.                *)
(***************************************************************************)
EXTENDS SystemLife, Json, IOUtils

NoResets(i) == {}
NoNeeds(i) == {}
TwoVersions(i) == {1, 2}
NoWarnings(c) == {}
Log == ndJsonDeserialize(IOEnv.TRACE_FILE)
VARIABLE l
Clause(name, c) == c \/ (PrintT(<<"REJECT", ToJson([l |-> l, clause |-> name, seq |-> Log[l].seq])>>) /\ FALSE)

Bound(e) == [i \in Items |-> e.have[i]]

TrCreate ==
    /\ l <= Len(Log) /\ Log[l].ev \in {"system.createPRISM", "system.solve"} /\ l' = l + 1
    /\ LET e == Log[l]
       IN  /\ cfg' = Bound(e)
           /\ prisms' = <<>> /\ steps' = 0
           /\ last' = [act |-> IF e.ev = "system.solve" THEN "SysSolve" ELSE "CreatePRISM",
                       raises |-> IF Complete(Bound(e)) THEN "" ELSE "ValueError"]
           /\ Clause("CreateRaisesIffIncomplete", (e.exc = "ValueError") <=> ~Complete(Bound(e)))
           /\ Clause("OnlyValueErrorOnIncomplete", Complete(Bound(e)) \/ e.exc = "ValueError")
           /\ Clause("SystemUntouchedByCreateSolve", e.untouched = 1)
           /\ Clause("ReturnsPrismIffComplete", (e.exc = "") => e.prism # 0)

TrCheck ==
    /\ l <= Len(Log) /\ Log[l].ev = "system.check" /\ l' = l + 1
    /\ LET e == Log[l]
       IN  /\ cfg' = Bound(e) /\ UNCHANGED <<prisms, steps>>
           /\ last' = [act |-> "Check", raises |-> e.exc]
           /\ Clause("CheckRaisesIffIncomplete", (e.exc = "ValueError") <=> ~Complete(Bound(e)))
           /\ Clause("SystemUntouchedByCheck", e.untouched = 1)

TraceInit == /\ cfg = [i \in Items |-> 0] /\ prisms = <<>> /\ steps = 0 /\ last = [act |-> "Init"] /\ l = 1
TraceNext == TrCreate \/ TrCheck
TraceView == <<vars, l>>
TraceAccepted ==
    LET d == TLCGet("stats").diameter - 1
    IN  /\ PrintT(<<"TRACE", ToJson([accepted |-> d, total |-> Len(Log)])>>)
        /\ d = Len(Log)
=============================================================================
