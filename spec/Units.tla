-------------------------------- MODULE Units --------------------------------
(***************************************************************************)
(* Property C17: pyPRISM.util.UnitConverter.  A converter is configured    *)
(* with a characteristic length dc [dc_unit] and energy ec [ec_unit];      *)
(* every documented method returns a quantity whose magnitude equals the   *)
(* textbook formula.  The formulas are terms in the variables              *)
(*     x (the argument), d (site diameter), dc, ec,                        *)
(*     kB, NA, eV (exact SI 2019 values), pi,                              *)
(* with the unit factors of the configuration resolved by TLC from the     *)
(* tables below.  TLC checks on the terms (constants replaced by arbitrary *)
(* rationals - the statements are identities): every conversion is linear  *)
(* in x, Celsius is Kelvin minus 273.15, 1/nm is ten times 1/Angstrom,     *)
(* concentration times dc^3 NA gives the reduced density back, the volume  *)
(* fraction is rho pi d^3/6, and every method of every configuration       *)
(* returns (Total).                                                        *)
(***************************************************************************)
EXTENDS Term, FiniteSets

\* characteristic length units: Angstrom per unit as 10^a, decimetre (L^(1/3)) per unit as 10^l
LenUnits == [nanometer |-> [a |-> 1, l |-> -8], angstrom |-> [a |-> 0, l |-> -9], micrometer |-> [a |-> 4, l |-> -5]]
\* characteristic energy units: J (or J/mol) per unit as a term, and whether the unit is molar
EnUnits == [kilojoule_per_mole   |-> [f |-> TI(1000), molar |-> TRUE],
            joule_per_mole       |-> [f |-> TI(1),    molar |-> TRUE],
            kilocalorie_per_mole |-> [f |-> TI(4184), molar |-> TRUE],
            joule                |-> [f |-> TI(1),    molar |-> FALSE],
            electron_volt        |-> [f |-> TV("eV"), molar |-> FALSE]]
Methods == {"toKelvin", "toCelcius", "toInvAngstrom", "toInvNanometer", "toConcentration", "toVolumeFraction"}
ArgKinds == {"scalar", "array", "int"}

x_ == TV("x")
Kelvin(eu) == LET e == EnUnits[eu]
                  num == TMul(TMul(x_, TV("ec")), e.f)
              IN  IF e.molar THEN TDiv(num, TMul(TV("kB"), TV("NA"))) ELSE TDiv(num, TV("kB"))
\* Au = Angstrom per length unit, Lu = decimetre per length unit (bound from LenUnits, see UnitEnv)
InvAngstrom(lu) == TDiv(x_, TMul(TV("dc"), TV("Au")))
Formula(m, lu, eu) ==
    CASE m = "toKelvin"         -> Kelvin(eu)
      [] m = "toCelcius"        -> TSub(Kelvin(eu), TQ(<<27315, 100>>))
      [] m = "toInvAngstrom"    -> InvAngstrom(lu)
      [] m = "toInvNanometer"   -> TMul(TI(10), InvAngstrom(lu))
      [] m = "toConcentration"  -> TDiv(x_, TMul(TPow(TMul(TV("dc"), TV("Lu")), 3), TV("NA")))     \* mol / L
      [] m = "toVolumeFraction" -> TDiv(TMul(TMul(x_, TV("pi")), TPow(TV("d"), 3)), TI(6))
UnitOf(m) == CASE m = "toKelvin" -> "kelvin" [] m = "toCelcius" -> "degree_Celsius" [] m = "toInvAngstrom" -> "1/angstrom"
               [] m = "toInvNanometer" -> "1/nanometer" [] m = "toConcentration" -> "mole/liter" [] m = "toVolumeFraction" -> "dimensionless"

UnitEnv(lu) == [Au |-> TE10(LenUnits[lu].a), Lu |-> TE10(LenUnits[lu].l)]

VARIABLES conv,    \* [lu, eu]
          last
vars == <<conv, last>>
NoConv == [lu |-> "none", eu |-> "none"]
Init == conv = NoConv /\ last = [act |-> "Init"]
Construct(lu, eu) == /\ conv = NoConv
                     /\ conv' = [lu |-> lu, eu |-> eu]
                     /\ last' = [act |-> "Construct", lu |-> lu, eu |-> eu]
Call(m, ak) == /\ conv # NoConv /\ UNCHANGED conv
               /\ last' = [act |-> "Call", method |-> m, arg |-> ak, raises |-> "none",       \* Total: no method raises
                           magnitude |-> Formula(m, conv.lu, conv.eu), unitenv |-> UnitEnv(conv.lu), unit |-> UnitOf(m)]
Next == \/ \E lu \in DOMAIN LenUnits, eu \in DOMAIN EnUnits : Construct(lu, eu)
        \/ \E m \in Methods, ak \in ArgKinds : Call(m, ak)

\* ------------------------------------------------------------------ statements (identities in the constants)
Env(xv) == [x |-> xv, Au |-> <<10, 1>>, Lu |-> <<1, 10>>, d |-> <<3, 2>>, dc |-> <<3, 2>>, ec |-> <<5, 4>>, kB |-> <<3, 1>>, NA |-> <<7, 1>>, eV |-> <<1, 5>>, pi |-> <<22, 7>>]
Val(m, lu, eu, xv) == REval(Formula(m, lu, eu), Env(xv))
AllCfg == (DOMAIN LenUnits) \X (DOMAIN EnUnits)
ASSUME Defined == \A m \in Methods, c \in AllCfg : IsDef(Val(m, c[1], c[2], <<2, 1>>))
\* linear in the argument (affine for Celsius): f(a + b) - f(a) - f(b) + f(0) = 0, and f(0) = 0 except Celsius
ASSUME LinearOrAffine ==
    \A m \in Methods, c \in AllCfg :
        LET f(v) == Val(m, c[1], c[2], v)
        IN  /\ RSub(RAdd(f(<<5, 1>>), f(RZero)), RAdd(f(<<2, 1>>), f(<<3, 1>>))) = RZero
            /\ (m # "toCelcius" => f(RZero) = RZero)
            /\ (m = "toCelcius" => f(RZero) = RNorm(-27315, 100))
ASSUME CelsiusIsKelvinMinus27315 ==
    \A c \in AllCfg : RSub(Val("toKelvin", c[1], c[2], <<2, 1>>), Val("toCelcius", c[1], c[2], <<2, 1>>)) = RNorm(27315, 100)
ASSUME NanometerIsTenTimesAngstrom ==
    \A c \in AllCfg : Val("toInvNanometer", c[1], c[2], <<2, 1>>) = RMul(<<10, 1>>, Val("toInvAngstrom", c[1], c[2], <<2, 1>>))
\* k [1/A] = k* / dc with dc in Angstrom
ASSUME InvAngstromDefinition ==
    Val("toInvAngstrom", "nanometer", "joule", <<2, 1>>) = RDiv(<<2, 1>>, RMul(<<3, 2>>, <<10, 1>>))
\* T = T* ec / (kB NA) for a molar ec given in J/mol, T* ec / kB otherwise
ASSUME KelvinDefinition ==
    /\ Val("toKelvin", "nanometer", "joule_per_mole", <<2, 1>>) = RDiv(RMul(<<2, 1>>, <<5, 4>>), RMul(<<3, 1>>, <<7, 1>>))
    /\ Val("toKelvin", "nanometer", "kilojoule_per_mole", <<2, 1>>) = RMul(<<1000, 1>>, Val("toKelvin", "nanometer", "joule_per_mole", <<2, 1>>))
    /\ Val("toKelvin", "nanometer", "joule", <<2, 1>>) = RDiv(RMul(<<2, 1>>, <<5, 4>>), <<3, 1>>)
ASSUME VolumeFractionDefinition ==
    Val("toVolumeFraction", "nanometer", "joule", <<2, 1>>) = RDiv(RMul(RMul(<<2, 1>>, <<22, 7>>), RPow(<<3, 2>>, 3)), <<6, 1>>)
\* c [mol/L] = rho* / (dc^3 NA) with dc in decimetres
ASSUME ConcentrationDefinition ==
    RMul(Val("toConcentration", "nanometer", "joule", <<2, 1>>), RMul(RPow(RMul(<<3, 2>>, <<1, 10>>), 3), <<7, 1>>)) = <<2, 1>>
\* the state machine: calls never change the converter
CallsArePure == [][last'.act = "Call" => conv' = conv]_vars
=============================================================================
