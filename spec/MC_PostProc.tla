---------------------------- MODULE MC_PostProc ----------------------------
EXTENDS PostProc, Json
St      == [flag |-> flag,  epoch |-> epoch]
StPrime == [flag |-> flag', epoch |-> epoch']
MCInit == Init /\ PrintT(<<"INIT", ToJson(St)>>)
View   == vars
Edge   == PrintT(<<"EDGE", ToJson([from |-> St, to |-> StPrime, l |-> last'])>>)
NoEdge == TRUE
=============================================================================
