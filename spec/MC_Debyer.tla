----------------------------- MODULE MC_Debyer -----------------------------
(* constants that cannot be written in a cfg file (sequences); the chunk tables of the specification are exported so
   that the real Debyer._chunk can be compared with them *)
EXTENDS Debyer, Json
MolA == <<1, 1, 2, 1>>
MolB == <<1, 1, 1, 1>>
MolC == <<1, 2, 1>>
MolD == <<2, 1>>
ASSUME PrintT(<<"CHUNKS", ToJson([n \in 1 .. 12 |-> [c \in 1 .. 14 |-> [t \in 1 .. c |-> ChunkRow(n, c, t - 1)]]])>>)
=============================================================================
