---------------------------- MODULE MC_Lifecycle ----------------------------
EXTENDS Lifecycle, Json
St      == [cfg |-> cfg,  prisms |-> prisms]
StPrime == [cfg |-> cfg', prisms |-> prisms']
MCInit == Init /\ PrintT(<<"INIT", ToJson(St)>>)
View   == vars
Edge   == PrintT(<<"EDGE", ToJson([from |-> St, to |-> StPrime, l |-> last'])>>)
NoEdge == TRUE
=============================================================================
