----------------------------- MODULE ChunkInd -----------------------------
(***************************************************************************)
(* ChunkPartition of Debyer.tla without bounds: for EVERY number of sites  *)
(* n >= 1, every number of chunks c >= 1 and every site i < n, exactly one *)
(* of the rows 0 .. c-1 of the chunk table contains i, and every row lies  *)
(* inside 0 .. n.  The universally quantified integers are CONSTANTS that  *)
(* Apalache leaves symbolic (--cinit=CInit): the invariant is checked in   *)
(* the initial state only (--length=0), i.e. it is one SMT validity query  *)
(* over unbounded integers.                                                *)
(*   apalache-mc check --cinit=CInit --inv=Partition --length=0 ChunkInd.tla*)
(***************************************************************************)
EXTENDS Chunk
CONSTANTS
    \* @type: Int;
    n,
    \* @type: Int;
    c,
    \* @type: Int;
    i,
    \* @type: Int;
    t1,
    \* @type: Int;
    t2
VARIABLE
    \* @type: Int;
    dummy

InRow(t) == ChunkLo(n, c, t) <= i /\ i < ChunkHi(n, c, t)

CInit == /\ n \in Nat /\ c \in Nat /\ i \in Nat /\ t1 \in Nat /\ t2 \in Nat
         /\ n >= 1 /\ c >= 1 /\ i < n /\ t1 < c /\ t2 < c
Init == dummy = 0
Next == UNCHANGED dummy

Partition ==
    /\ (InRow(t1) /\ InRow(t2)) => t1 = t2                         \* at most one row holds site i
    /\ (i \div ChunkSize(n, c)) < c /\ InRow(i \div ChunkSize(n, c))   \* ... and row (i div size) does
    /\ ChunkHi(n, c, t1) <= n /\ ChunkLo(n, c, t1) <= ChunkHi(n, c, t1)
\* a deliberately wrong variant (floor instead of ceiling division): must be refuted, shows the query is not vacuous
BadSize == n \div c
BadLo(t) == IF t * BadSize < n THEN t * BadSize ELSE 0
BadHi(t) == IF t * BadSize < n THEN Min((t + 1) * BadSize, n) ELSE 0
BadPartition == BadSize >= 1 => ((i \div BadSize) < c /\ BadLo(i \div BadSize) <= i /\ i < BadHi(i \div BadSize))
=============================================================================
