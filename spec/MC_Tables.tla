----------------------------- MODULE MC_Tables -----------------------------
(* Model-checking wrapper of Tables: constants, the split into a PairTable and a
   ValueTable run, and the export of the labelled state graph (one EDGE record per
   generated transition, one INIT record per initial state) that the harness replays
   on the real classes. *)
EXTENDS Tables, Json

MC_Vals == {1, 2}
MC_Vals1 == {1}

St      == [id |-> id,  val |-> val,  vt |-> vt]
StPrime == [id |-> id', val |-> val', vt |-> vt']

MCInit == Init /\ PrintT(<<"INIT", ToJson(St)>>)
NextPT == PTNext
NextVT == VTNext
View   == vars
Edge   == PrintT(<<"EDGE", ToJson([from |-> St, to |-> StPrime, l |-> last'])>>)
NoEdge == TRUE
=============================================================================
