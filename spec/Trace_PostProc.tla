--------------------------- MODULE Trace_PostProc ---------------------------
(***************************************************************************)
(* Validation of calculate.* / solve events recorded from real executions  *)
(* (the repository's CalcPRISM tests, tutorial-shaped drivers) against     *)
(* spec/PostProc.tla.  The log is the concatenation of per-PRISM-object    *)
(* sub-traces, each starting with the successful "prism.solve" that        *)
(* defines the solved content.  Logged after every call: the space flag of *)
(* each stored array and its drift class against the pristine snapshot     *)
(* (0 = solved content in the flagged space, 1 = solved content in the     *)
(* other space, 2 = something else).  Each calculate event must be the     *)
(* specification's Calc action with the logged post-flags, and the state   *)
(* bound to the logged drift must satisfy ContentsPristine / FlagTruthful. *)
(***************************************************************************)
EXTENDS PostProc, Json, IOUtils

Log == ndJsonDeserialize(IOEnv.TRACE_FILE)
VARIABLE l

Clause(name, c) == c \/ (PrintT(<<"REJECT", ToJson([l |-> l, clause |-> name, seq |-> Log[l].seq])>>) /\ FALSE)
IsEvent(e) == l <= Len(Log) /\ Log[l].ev = e /\ l' = l + 1

Flags(e) == [x \in Arrays |-> e.flag[x]]
Other(s) == IF s = "R" THEN "F" ELSE "R"

\* bind representation and content to the logged drift classes
Bind(e) ==
    /\ Clause("NoSpaceError", e.exc = "")
    /\ Clause("ContentsPristine.H", e.drift.H # 2)
    /\ Clause("ContentsPristine.C", e.drift.C # 2)
    /\ Clause("ContentsPristine.W", e.drift.W # 2)
    /\ Clause("FlagTruthful.H", e.drift.H # 1)
    /\ Clause("FlagTruthful.C", e.drift.C # 1)
    /\ Clause("FlagTruthful.W", e.drift.W # 1)
    /\ Clause("FlagIsSpace", \A x \in Arrays : e.flag[x] \in Sp)

TrSolve ==
    /\ IsEvent("prism.solve")
    /\ LET e == Log[l]
       IN  /\ flag' = Flags(e) /\ rep' = flag' /\ ok' = [x \in Arrays |-> TRUE]
           /\ epoch' = e.epoch
           /\ last' = [act |-> IF e.epoch = 0 THEN "Solve" ELSE "Resolve", raises |-> ""]
           /\ Clause("SolveLeavesRoot.spaces", Flags(e) = [H |-> "R", C |-> "F", W |-> "F"])
           /\ Bind(e)

TrCalc ==
    /\ l <= Len(Log) /\ Log[l].ev \in {"calc.pair_correlation", "calc.pmf", "calc.structure_factor", "calc.second_virial",
                                        "calc.chi", "calc.spinodal_condition", "calc.solvation_potential"}
    /\ l' = l + 1
    /\ LET e == Log[l]
       IN  /\ Bind(e)
           /\ Clause("CalcTouchesOnlyWhatItNeeds", \E v \in {<<e.fn, e.arg>>} : Calc(v, Flags(e)))

\* user transforms of the stored arrays (recorded by the Domain hook at depth 0)
TrUser ==
    /\ IsEvent("user.transform")
    /\ LET e == Log[l]
       IN  /\ Clause("UserTransform", UserTransform(e.array) /\ flag'[e.array] = e.to)

TraceInit == Init /\ l = 1
TraceNext == TrSolve \/ TrCalc \/ TrUser
TraceView == <<vars, l>>
TraceAccepted ==
    LET d == TLCGet("stats").diameter - 1
    IN  /\ PrintT(<<"TRACE", ToJson([accepted |-> d, total |-> Len(Log)])>>)
        /\ d = Len(Log)
=============================================================================
