---------------------------- MODULE MatrixArray ----------------------------
(***************************************************************************)
(* pyPRISM.core.MatrixArray (property C13).                                *)
(*                                                                         *)
(* A MatrixArray object is a reference to a numpy buffer plus a space flag.*)
(* Buffers are state of their own (`heap`): several objects may share one  *)
(* (MatrixArray(data=A.data) wraps without copying), in-place operators    *)
(* write into the left operand's buffer, out-of-place operators and        *)
(* get_copy allocate a fresh one, and dot(inplace=True) / invert(inplace=  *)
(* True) REBIND the left operand to a fresh buffer (the code assigns       *)
(* self.data), leaving other holders of the old buffer untouched.          *)
(*                                                                         *)
(* Data are exact rationals (module Mono); L matrices of rank R per buffer.*)
(* Objects: "X", "Y" (operands created by the user; Y may be an            *)
(* IdentityMatrixArray) and "Z" (the most recent result).                  *)
(***************************************************************************)
EXTENDS Mono, Sequences, FiniteSets

CONSTANTS L, R,          \* length and rank
          MaxSteps,
          Spaces         \* space flags the two operands may start with

Names == {"X", "Y", "Z"}
NoObj == [buf |-> 0, space |-> "-"]

VARIABLES heap,    \* [1..NB -> data | <<>>]   numpy buffers
          obj,     \* [Names -> [buf, space]]  buf = 0: no such object yet
          steps,
          last

vars == <<heap, obj, steps>>
NB == 4

Li == 1 .. L
Ri == 1 .. R

\* ---------------------------------------------------------------- data algebra
Mk(F(_, _, _)) == [l \in Li |-> [i \in Ri |-> [j \in Ri |-> F(l, i, j)]]]
Ident == Mk(LAMBDA l, i, j : IF i = j THEN ROne ELSE RZero)

Scalar == <<2, 1>>                                          \* the scalar operand
Vec    == [l \in Li |-> <<l + 1, 2>>]                       \* the (L,1,1) array operand
Arr    == Mk(LAMBDA l, i, j : <<i + 2 * j + l, 1>>)         \* the (L,R,R) array operand
Row    == [j \in Ri |-> <<j + 2, 3>>]                       \* a (R,) array: numpy broadcasts it over the COLUMNS of every matrix
Mat    == [i \in Ri |-> [j \in Ri |-> <<2 * i + j, 2>>]]    \* a (R,R) array: the same matrix combined with every matrix

Op(op, a, b) == CASE op = "add" -> RAdd(a, b)
                  [] op = "sub" -> RSub(a, b)
                  [] op = "mul" -> RMul(a, b)
                  [] op = "div" -> RDiv(a, b)

\* elementwise combination with numpy broadcasting of the right operand
Elementwise(op, a, kind, b) ==
    Mk(LAMBDA l, i, j : Op(op, a[l][i][j],
                           CASE kind = "ma"     -> b[l][i][j]
                             [] kind = "scalar" -> Scalar
                             [] kind = "vec"    -> Vec[l]
                             [] kind = "row"    -> Row[j]
                             [] kind = "mat"    -> Mat[i][j]
                             [] kind = "arr"    -> Arr[l][i][j]))

RECURSIVE DotSum(_, _, _, _, _, _)
DotSum(a, b, l, i, j, k) == IF k = 0 THEN RZero
                            ELSE RAdd(RMul(a[l][i][k], b[l][k][j]), DotSum(a, b, l, i, j, k - 1))
Dot(a, b) == Mk(LAMBDA l, i, j : DotSum(a, b, l, i, j, R))

Det(m) == IF R = 1 THEN m[1][1] ELSE RSub(RMul(m[1][1], m[2][2]), RMul(m[1][2], m[2][1]))
Inv(a) == Mk(LAMBDA l, i, j :
              IF R = 1 THEN RDiv(ROne, a[l][1][1])
              ELSE LET d == Det(a[l])
                       c == IF i = j THEN a[l][3 - i][3 - j] ELSE RNeg(a[l][i][j])
                   IN  RDiv(c, d))
Invertible(a) == \A l \in Li : Det(a[l]) # RZero
NonZero(kind, b) == \A l \in Li, i, j \in Ri :
                       (CASE kind = "ma" -> b[l][i][j] [] kind = "scalar" -> Scalar
                          [] kind = "vec" -> Vec[l] [] kind = "row" -> Row[j] [] kind = "mat" -> Mat[i][j]
                          [] kind = "arr" -> Arr[l][i][j]) # RZero
Small(a) == \A l \in Li, i, j \in Ri : Abs(a[l][i][j][1]) < 20000 /\ a[l][i][j][2] < 20000

\* ---------------------------------------------------------------- objects and buffers
Exists(n)  == obj[n].buf # 0
Data(n)    == heap[obj[n].buf]
FreshBuf   == CHOOSE b \in 1 .. NB : heap[b] = <<>> /\ \A c \in 1 .. (b - 1) : heap[c] # <<>>
\* buffers no object refers to any more are garbage: drop them so that states are canonical
Collect(h, o) == [b \in 1 .. NB |-> IF \E n \in Names : o[n].buf = b THEN h[b] ELSE <<>>]
\* renumber buffers by first use in the order X, Y, Z
Order == <<"X", "Y", "Z">>
BufSeq(o) == [k \in 1 .. 3 |-> o[Order[k]].buf]
FirstOf(o, n) == CHOOSE f \in 1 .. 3 : BufSeq(o)[f] = o[n].buf /\ \A g \in 1 .. (f - 1) : BufSeq(o)[g] # o[n].buf
Rank(o, n) == Cardinality({BufSeq(o)[g] : g \in {q \in 1 .. FirstOf(o, n) : BufSeq(o)[q] # 0}})
Commit(h, o) ==
    LET h1 == Collect(h, o)
        newbuf(n) == IF o[n].buf = 0 THEN 0 ELSE Rank(o, n)
        o2 == [n \in Names |-> [o[n] EXCEPT !.buf = newbuf(n)]]
        h2 == [b \in 1 .. NB |-> IF \E n \in Names : o2[n].buf = b
                                 THEN h1[o[CHOOSE n \in Names : o2[n].buf = b].buf] ELSE <<>>]
    IN  /\ heap' = h2 /\ obj' = o2 /\ steps' = steps + 1

SpaceOK(a, b) == a = b \/ a = "NonSpatial" \/ b = "NonSpatial"

\* ---------------------------------------------------------------- actions
\* lhs <op> rhs, out of place (result -> Z) or in place; rhs is an object name or an operand kind
\* dst: the name the user binds an out-of-place result to (Z = X + Y, but also Y = X + Y: the old object of that name is dropped
\* unless another name still refers to it).  Results of different calls are different buffers whatever they are bound to.
BinD(op, n, kind, m, inplace, dst) ==
    /\ steps < MaxSteps /\ Exists(n) /\ (kind = "ma" => Exists(m))
    /\ LET b  == IF kind = "ma" THEN Data(m) ELSE <<>>
           ok == kind # "ma" \/ SpaceOK(obj[n].space, obj[m].space)
       IN  IF ~ok
           THEN /\ UNCHANGED <<heap, obj>> /\ steps' = steps + 1
                /\ last' = [act |-> "Bin", op |-> op, lhs |-> n, kind |-> kind, rhs |-> m, inplace |-> inplace,
                            raises |-> "AssertionError"]
           ELSE /\ (op = "div" => NonZero(kind, b))
                /\ LET d == Elementwise(op, Data(n), kind, b)
                   IN  /\ Small(d)
                       /\ IF inplace
                          THEN Commit([heap EXCEPT ![obj[n].buf] = d], obj)
                          ELSE Commit([heap EXCEPT ![FreshBuf] = d],
                                      [obj EXCEPT ![dst] = [buf |-> FreshBuf, space |-> obj[n].space]])
                /\ last' = [act |-> "Bin", op |-> op, lhs |-> n, kind |-> kind, rhs |-> m, inplace |-> inplace,
                            raises |-> "", dst |-> dst]
Bin(op, n, kind, m, inplace) == BinD(op, n, kind, m, inplace, "Z")

\* dot / @ : the in-place form REBINDS the left operand to a fresh buffer
DotD(n, m, inplace, viaOperator, dst) ==
    /\ steps < MaxSteps /\ Exists(n) /\ Exists(m)
    /\ IF ~SpaceOK(obj[n].space, obj[m].space)
       THEN /\ UNCHANGED <<heap, obj>> /\ steps' = steps + 1
            /\ last' = [act |-> "Dot", lhs |-> n, rhs |-> m, inplace |-> inplace, operator |-> viaOperator,
                        raises |-> "AssertionError"]
       ELSE /\ LET d == Dot(Data(n), Data(m))
               IN  /\ Small(d)
                   /\ Commit([heap EXCEPT ![FreshBuf] = d],
                             [obj EXCEPT ![IF inplace THEN n ELSE dst] = [buf |-> FreshBuf, space |-> obj[n].space]])
            /\ last' = [act |-> "Dot", lhs |-> n, rhs |-> m, inplace |-> inplace, operator |-> viaOperator,
                        raises |-> "", dst |-> dst]
DotAct(n, m, inplace, viaOperator) == DotD(n, m, inplace, viaOperator, "Z")

InvertD(n, inplace, dst) ==
    /\ steps < MaxSteps /\ Exists(n) /\ Invertible(Data(n))
    /\ LET d == Inv(Data(n))
       IN  /\ Small(d)
           /\ Commit([heap EXCEPT ![FreshBuf] = d],
                     [obj EXCEPT ![IF inplace THEN n ELSE dst] = [buf |-> FreshBuf, space |-> obj[n].space]])
           /\ last' = [act |-> "Invert", lhs |-> n, inplace |-> inplace, raises |-> "", dst |-> dst,
                       product |-> Dot(Data(n), d)]        \* A . A^-1, must be the identity
InvertAct(n, inplace) == InvertD(n, inplace, "Z")

GetCopyD(n, dst) ==
    /\ steps < MaxSteps /\ Exists(n)
    /\ Commit([heap EXCEPT ![FreshBuf] = Data(n)],
              [obj EXCEPT ![dst] = [buf |-> FreshBuf, space |-> obj[n].space]])
    /\ last' = [act |-> "GetCopy", lhs |-> n, raises |-> "", dst |-> dst]
GetCopy(n) == GetCopyD(n, "Z")

\* Z = MatrixArray(data = n.data): the constructor keeps the caller's array (documented sharing)
Wrap(n) ==
    /\ steps < MaxSteps /\ Exists(n) /\ n # "Z"
    /\ Commit(heap, [obj EXCEPT !["Z"] = [buf |-> obj[n].buf, space |-> obj[n].space]])
    /\ last' = [act |-> "Wrap", lhs |-> n, raises |-> ""]

\* n[t1, t2] = SetVec   (type names by index; 0 stands for a name the object does not have)
\* The step is defined on the VALUES of the pair function: how the caller holds them (ndarray, list, tuple, strided view,
\* integers) is not part of the abstract state, so the replay performs every SetItem edge with each representation and
\* demands the same successor state (clause SetItemSymmetric.<form> of harness/props/c13).
SetVec == [l \in Li |-> <<7 * l, 2>>]
SetItem(n, t1, t2) ==
    /\ steps < MaxSteps /\ Exists(n)
    /\ IF t1 = 0 \/ t2 = 0
       THEN /\ UNCHANGED <<heap, obj>> /\ steps' = steps + 1
            /\ last' = [act |-> "SetItem", lhs |-> n, t1 |-> t1, t2 |-> t2, raises |-> "ValueError"]
       ELSE /\ Commit([heap EXCEPT ![obj[n].buf] =
                          Mk(LAMBDA l, i, j : IF (i = t1 /\ j = t2) \/ (i = t2 /\ j = t1) THEN SetVec[l]
                                               ELSE Data(n)[l][i][j])], obj)
            /\ last' = [act |-> "SetItem", lhs |-> n, t1 |-> t1, t2 |-> t2, raises |-> ""]

\* augmented assignment through the type-name accessor:  M[a, b] += 1  (reads the pair function, adds in place, writes it back):
\* both (a,b) and (b,a) carry the new values afterwards
AugItem(n, t1, t2) ==
    /\ steps < MaxSteps /\ Exists(n) /\ t1 # 0 /\ t2 # 0
    /\ Commit([heap EXCEPT ![obj[n].buf] =
                   Mk(LAMBDA l, i, j : IF (i = t1 /\ j = t2) \/ (i = t2 /\ j = t1) THEN RAdd(Data(n)[l][t1][t2], ROne)
                                        ELSE Data(n)[l][i][j])], obj)
    /\ last' = [act |-> "AugItem", lhs |-> n, t1 |-> t1, t2 |-> t2, raises |-> ""]

GetItem(n, t1, t2) ==
    /\ steps < MaxSteps /\ Exists(n)
    /\ UNCHANGED <<heap, obj>> /\ steps' = steps + 1
    /\ last' = IF t1 = 0 \/ t2 = 0
               THEN [act |-> "GetItem", lhs |-> n, t1 |-> t1, t2 |-> t2, raises |-> "ValueError"]
               ELSE [act |-> "GetItem", lhs |-> n, t1 |-> t1, t2 |-> t2, raises |-> "",
                     out |-> [l \in Li |-> Data(n)[l][t1][t2]]]

\* ---- accessors by index and iteration (no type names involved)
\* n.get(i, j): indices from 0; an index >= rank is refused (AssertionError)
GetIdx(n, i, j) ==
    /\ steps < MaxSteps /\ Exists(n)
    /\ UNCHANGED <<heap, obj>> /\ steps' = steps + 1
    /\ last' = IF i >= R \/ j >= R
               THEN [act |-> "GetIdx", lhs |-> n, i |-> i, j |-> j, raises |-> "AssertionError"]
               ELSE [act |-> "GetIdx", lhs |-> n, i |-> i, j |-> j, raises |-> "",
                     out |-> [l \in Li |-> Data(n)[l][i + 1][j + 1]]]

\* n.getMatrix(l): the l-th matrix (index from 0)
GetMatrix(n, l) ==
    /\ steps < MaxSteps /\ Exists(n)
    /\ UNCHANGED <<heap, obj>> /\ steps' = steps + 1
    /\ last' = [act |-> "GetMatrix", lhs |-> n, l |-> l - 1, raises |-> "", out |-> Data(n)[l]]

\* n.setMatrix(l, SetMat): only matrix l changes, every object sharing the buffer sees it
SetMat == [i \in Ri |-> [j \in Ri |-> IF i = j THEN <<5, 1>> ELSE <<3, 2>>]]
SetMatrix(n, l) ==
    /\ steps < MaxSteps /\ Exists(n)
    /\ Commit([heap EXCEPT ![obj[n].buf] = [Data(n) EXCEPT ![l] = SetMat]], obj)
    /\ last' = [act |-> "SetMatrix", lhs |-> n, l |-> l - 1, raises |-> ""]

\* for (i,j),(t1,t2),f in n.iterpairs()  [itercurve() is the deprecated alias]: every unordered pair once, upper triangle,
\* in type-list (row-major) order, with the pair function as it is stored
UpperPairs == LET all == [q \in 1 .. R * R |-> <<((q - 1) \div R) + 1, ((q - 1) % R) + 1>>]
              IN  SelectSeq(all, LAMBDA p : p[1] <= p[2])
IterPairs(n, deprecated) ==
    /\ steps < MaxSteps /\ Exists(n)
    /\ UNCHANGED <<heap, obj>> /\ steps' = steps + 1
    /\ last' = [act |-> "IterPairs", lhs |-> n, deprecated |-> deprecated, raises |-> "",
                out |-> [q \in 1 .. Len(UpperPairs) |->
                            [i |-> UpperPairs[q][1] - 1, j |-> UpperPairs[q][2] - 1,
                             f |-> [l \in Li |-> Data(n)[l][UpperPairs[q][1]][UpperPairs[q][2]]]]]]

\* the user re-labels an object's space (public attribute)
Relabel(n, s) ==
    /\ steps < MaxSteps /\ Exists(n) /\ obj[n].space # s
    /\ Commit(heap, [obj EXCEPT ![n].space = s])
    /\ last' = [act |-> "Relabel", lhs |-> n, space |-> s, raises |-> ""]

\* ---------------------------------------------------------------- initial states
X0 == Mk(LAMBDA l, i, j : IF i = j THEN <<l + 1, 1>> ELSE IF i < j THEN <<1, 1>> ELSE RZero)
Y0 == Mk(LAMBDA l, i, j : IF i = j THEN <<1, 2>> ELSE <<l, 1>>)

InitWith(sx, sy, ykind) ==
    /\ heap = [b \in 1 .. NB |-> IF b = 1 THEN X0 ELSE IF b = 2 THEN (IF ykind = "identity" THEN Ident ELSE Y0) ELSE <<>>]
    /\ obj = [n \in Names |-> IF n = "X" THEN [buf |-> 1, space |-> sx]
                              ELSE IF n = "Y" THEN [buf |-> 2, space |-> sy] ELSE NoObj]
    /\ steps = 0
    /\ last = [act |-> "Init", ykind |-> ykind]

Ops   == {"add", "sub", "mul", "div"}
Kinds == {"scalar", "vec", "arr"}
MoreKinds == {"row", "mat"}          \* arrays that broadcast over the matrix axes instead of the length axis

ValueNext ==
    \/ \E op \in Ops, n \in Names, m \in Names, ip \in BOOLEAN : Bin(op, n, "ma", m, ip)
    \/ \E op \in Ops, n \in Names, k \in Kinds, ip \in BOOLEAN : Bin(op, n, k, "-", ip)
    \/ \E n \in Names, m \in Names, ip \in BOOLEAN, o \in BOOLEAN : DotAct(n, m, ip, o)
    \/ \E n \in Names, ip \in BOOLEAN : InvertAct(n, ip)
    \/ \E n \in Names : GetCopy(n) \/ Wrap(n)
    \/ \E n \in Names, t1 \in 0 .. R, t2 \in 0 .. R : SetItem(n, t1, t2) \/ GetItem(n, t1, t2)
    \/ \E n \in Names, t1 \in 1 .. R, t2 \in 1 .. R : AugItem(n, t1, t2)

\* accessors interleaved with the writes whose effect they must show (and with a Wrap, so that a shared buffer is read too)
AccessNext ==
    \/ \E n \in Names, i \in 0 .. R, j \in 0 .. R : GetIdx(n, i, j)
    \/ \E n \in Names, l \in Li : GetMatrix(n, l) \/ SetMatrix(n, l)
    \/ \E n \in Names, d \in BOOLEAN : IterPairs(n, d)
    \/ \E n \in Names, t1 \in 1 .. R, t2 \in 1 .. R : SetItem(n, t1, t2) \/ AugItem(n, t1, t2)
    \/ \E n \in Names : Wrap(n) \/ GetCopy(n)
    \/ \E op \in {"add", "mul"} : Bin(op, "X", "ma", "Y", TRUE)

\* results kept under different names: two (three) out-of-place results of the same left operand alive at once
\* (Z = X.dot(Y); Y = X.dot(Z); ...) - each is a buffer of its own and none of them changes when the next is computed
DstNext ==
    \/ \E m \in Names, o \in BOOLEAN, dst \in {"Y", "Z"} : DotD("X", m, FALSE, o, dst)
    \/ \E op \in {"add", "mul"}, m \in Names, dst \in {"Y", "Z"} : BinD(op, "X", "ma", m, FALSE, dst)
    \/ \E dst \in {"Y", "Z"} : InvertD("X", FALSE, dst) \/ GetCopyD("X", dst)

\* the further operand kinds, one operation deep
KindNext == \E op \in Ops, n \in Names, k \in MoreKinds, ip \in BOOLEAN : Bin(op, n, k, "-", ip)

SpaceNext ==
    \/ \E op \in Ops, ip \in BOOLEAN : Bin(op, "X", "ma", "Y", ip)
    \/ \E ip \in BOOLEAN, o \in BOOLEAN : DotAct("X", "Y", ip, o)
    \/ \E op \in Ops, k \in Kinds, ip \in BOOLEAN : Bin(op, "X", k, "-", ip)

\* ---------------------------------------------------------------- properties
TypeOK == /\ \A n \in Names : obj[n].buf \in 0 .. NB
          /\ \A n \in Names : Exists(n) => heap[obj[n].buf] # <<>>
\* every buffer is referenced (canonical) and numbered by first use
Canonical == \A b \in 1 .. NB : heap[b] # <<>> <=> \E n \in Names : obj[n].buf = b

InvertIsInverse == last.act = "Invert" => last.product = Ident

\* iteration visits each unordered pair exactly once, in type-list order, and hands out what is stored
IterVisitsEachPairOnce ==
    last.act = "IterPairs" =>
        /\ Len(last.out) = (R * (R + 1)) \div 2
        /\ \A q \in 1 .. Len(last.out) : last.out[q].i <= last.out[q].j
        /\ \A q, p \in 1 .. Len(last.out) : q < p =>
              (last.out[q].i < last.out[p].i \/ (last.out[q].i = last.out[p].i /\ last.out[q].j < last.out[p].j))
        /\ \A q \in 1 .. Len(last.out) : \A l \in Li :
              last.out[q].f[l] = Data(last.lhs)[l][last.out[q].i + 1][last.out[q].j + 1]
\* reads do not write
AccessorsArePure ==
    [][last'.act \in {"GetIdx", "GetMatrix", "IterPairs", "GetItem"} => (heap' = heap /\ obj' = obj)]_<<vars, last>>
\* setMatrix touches exactly one matrix of exactly one buffer
SetMatrixLocal ==
    [][last'.act = "SetMatrix" =>
          \A b \in 1 .. NB : \A l \in Li :
              (heap[b] # <<>> /\ heap'[b] # <<>> /\ ~(b = obj[last'.lhs].buf /\ l = last'.l + 1)) => heap'[b][l] = heap[b][l]]_<<vars, last>>

\* out-of-place results and copies never share memory with an operand; in-place operations
\* modify only the left operand's buffer
NoAliasOutOfPlace ==
    [][(last'.act \in {"Bin", "Dot", "Invert", "GetCopy"} /\ last'.raises = "" /\
        (last'.act = "GetCopy" \/ ~last'.inplace))
       => /\ \A n \in Names \ {last'.dst} :           \* every other name keeps its object: same space, same contents
                 Exists(n) => (Exists(n)' /\ obj'[n].space = obj[n].space /\ heap'[obj'[n].buf] = heap[obj[n].buf])
          /\ \A n \in Names \ {last'.dst} : obj'[last'.dst].buf # obj'[n].buf]_<<vars, last>>

InPlaceTouchesOnlyLhs ==
    [][(last'.act = "Bin" /\ last'.raises = "" /\ last'.inplace)
       => \A n \in Names : (Exists(n) /\ obj[n].buf # obj[last'.lhs].buf) =>
                               (obj'[n] = obj[n] /\ heap'[obj'[n].buf] = heap[obj[n].buf])]_<<vars, last>>

RefusedLeavesEverything ==
    [][last'.raises # "" => (heap' = heap /\ obj' = obj)]_<<vars, last>>

SpaceRule ==
    [][(last'.act \in {"Bin", "Dot"} /\ last'.rhs \in Names)
       => ((last'.raises = "AssertionError") <=> ~SpaceOK(obj[last'.lhs].space, obj[last'.rhs].space))]_<<vars, last>>
=============================================================================
