---------------------------- MODULE MC_PrismCore ----------------------------
EXTENDS PrismCore, Json
MCInit == Init /\ PrintT(<<"INIT", ToJson([inst |-> inst])>>)
View   == <<inst, stage>>
\* only the last step carries the results the harness compares
Edge   == (last'.act = "GammaOut") => PrintT(<<"EDGE", ToJson([from |-> [seed |-> inst.seed], to |-> [seed |-> inst.seed], l |-> last'])>>)
NoEdge == TRUE
=============================================================================
