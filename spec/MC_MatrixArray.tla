-------------------------- MODULE MC_MatrixArray --------------------------
EXTENDS MatrixArray, Json
AllSpaces == {"Real", "Fourier", "NonSpatial"}
RealOnly  == {"Real"}
St      == [heap |-> heap,  obj |-> obj]
StPrime == [heap |-> heap', obj |-> obj']
MCInit == /\ \E sx \in Spaces, sy \in Spaces, yk \in {"plain", "identity"} : InitWith(sx, sy, yk)
          /\ PrintT(<<"INIT", ToJson(St)>>)
View   == vars
Edge   == PrintT(<<"EDGE", ToJson([from |-> St, to |-> StPrime, l |-> last'])>>)
NoEdge == TRUE
=============================================================================
