----------------------------- MODULE SystemLife -----------------------------
(***************************************************************************)
(* pyPRISM.System -> PRISM life cycle (property C16).                       *)
(*                                                                         *)
(* A System is a configuration: every item (the density and diameter of    *)
(* each type, the potential / closure / omega of each unordered pair, kT   *)
(* and the domain) is either unset (0) or carries a version id.  A PRISM   *)
(* object is a frozen snapshot of the configuration at the moment it was   *)
(* created, plus a "solved" mark; what a solve yields is a function of the *)
(* snapshot alone (token Snap(cfg)).                                       *)
(*                                                                         *)
(* Some items are DERIVED with a possible override: the contact distance   *)
(* sigma_AB is recomputed (version 1, the arithmetic mean) whenever one of *)
(* the two diameters is assigned, and the user may overwrite it afterwards *)
(* (version 2, a non-additive mixture) - Resets / Needs describe that.     *)
(*                                                                         *)
(* A diameter or contact distance that is not a grid point does not stop   *)
(* createPRISM / solve: check() WARNS about exactly those diameters and    *)
(* pairs (Warnings; the code visits a cross pair in both orientations, the *)
(* set of lengths warned about is what is specified), and the object is    *)
(* created all the same.                                                   *)
(*                                                                         *)
(* createPRISM / solve on an incomplete System raise ValueError and create *)
(* nothing; on a complete one they leave the System untouched; later edits *)
(* never reach an existing PRISM; an edited and re-solved System yields    *)
(* what a freshly built System with those parameters yields.               *)
(***************************************************************************)
EXTENDS Naturals, Sequences, FiniteSets, TLC

CONSTANTS Items,        \* names of all items of the System
          Optional,     \* items that always have a value (kT has a default)
          Editable,     \* items the edit actions may touch
          Resets(_),    \* Resets(i): derived items that assigning item i recomputes (back to version 1 = "derived value")
          Needs(_),     \* Needs(i): items that must be set before item i can be assigned
          Versions(_),  \* Versions(i): the version ids item i can be given
          Warnings(_),  \* Warnings(c): what check() warns about on a complete configuration c (lengths off the grid)
          MaxMissing,   \* initial states: Systems with at most this many items unset
          MaxPrisms,
          MaxSteps

VARIABLES cfg,      \* [Items -> 0 | version]
          prisms,   \* sequence of [snap |-> cfg at creation, solved |-> BOOLEAN]
          steps,
          last

vars == <<cfg, prisms, steps>>

Complete(c) == \A i \in Items : c[i] # 0
Missing(c)  == {i \in Items : c[i] = 0}

Init == /\ \E M \in SUBSET (Items \ Optional) :
              /\ Cardinality(M) <= MaxMissing
              /\ cfg = [i \in Items |-> IF i \in M THEN 0 ELSE 1]
        /\ prisms = <<>> /\ steps = 0
        /\ last = [act |-> "Init"]

\* assign (or re-assign) one item
Edit(i, v) ==
    /\ steps < MaxSteps /\ cfg[i] # v
    /\ \A j \in Needs(i) : cfg[j] # 0
    /\ cfg' = [j \in Items |-> IF j = i THEN v ELSE IF j \in Resets(i) THEN 1 ELSE cfg[j]]
    /\ UNCHANGED prisms /\ steps' = steps + 1
    /\ last' = [act |-> "Edit", item |-> i, ver |-> v, raises |-> ""]

\* System.createPRISM() / System.solve(): check(), then PRISM(self) [, then solve]
Create(solve) ==
    /\ steps < MaxSteps
    /\ steps' = steps + 1 /\ UNCHANGED cfg
    /\ IF ~Complete(cfg)
       THEN /\ UNCHANGED prisms
            /\ last' = [act |-> IF solve THEN "SysSolve" ELSE "CreatePRISM", raises |-> "ValueError",
                        missing |-> Missing(cfg)]
       ELSE /\ Len(prisms) < MaxPrisms
            /\ prisms' = Append(prisms, [snap |-> cfg, solved |-> solve])
            /\ last' = [act |-> IF solve THEN "SysSolve" ELSE "CreatePRISM", raises |-> "",
                        result |-> IF solve THEN <<"Snap", cfg>> ELSE <<>>,
                        warns |-> Warnings(cfg)]

\* PRISM.solve() on an existing, not yet solved object
PrismSolve(n) ==
    /\ steps < MaxSteps /\ n \in 1 .. Len(prisms) /\ ~prisms[n].solved
    /\ prisms' = [prisms EXCEPT ![n].solved = TRUE]
    /\ UNCHANGED cfg /\ steps' = steps + 1
    /\ last' = [act |-> "PrismSolve", n |-> n, raises |-> "", result |-> <<"Snap", prisms[n].snap>>]

\* the user goes on with a deep copy of the System (copy.deepcopy; pickling is not supported by the potentials): a copy IS the
\* same configuration, every later statement holds for it unchanged
CopySystem ==
    /\ steps < MaxSteps
    /\ UNCHANGED <<cfg, prisms>> /\ steps' = steps + 1
    /\ last' = [act |-> "CopySystem", raises |-> ""]

\* the oldest PRISM object is dropped by the user (bounds the model)
Drop ==
    /\ steps < MaxSteps /\ Len(prisms) = MaxPrisms
    /\ prisms' = Tail(prisms) /\ UNCHANGED cfg /\ steps' = steps + 1
    /\ last' = [act |-> "Drop", raises |-> ""]

Next == \/ \E i \in Editable : \E v \in Versions(i) : Edit(i, v)
        \/ \E s \in BOOLEAN : Create(s)
        \/ \E n \in 1 .. MaxPrisms : PrismSolve(n)
        \/ CopySystem
        \/ Drop

\* ---------------------------------------------------------------- the property
CreateRaisesIffIncomplete ==
    last.act \in {"CreatePRISM", "SysSolve"} => ((last.raises = "ValueError") <=> ~Complete(cfg))

NeverStartsOnPartialSystem == \A n \in 1 .. Len(prisms) : Complete(prisms[n].snap)

SystemUntouchedByCreateSolve ==
    [][last'.act \in {"CreatePRISM", "SysSolve", "PrismSolve"} => cfg' = cfg]_<<vars, last>>

\* later edits (and later creations) do not reach an existing PRISM object
SnapshotFrozen ==
    [][\A n \in 1 .. Len(prisms) :
         last'.act \in {"Edit", "CreatePRISM", "SysSolve"} =>
            (n <= Len(prisms') /\ prisms'[n].snap = prisms[n].snap)]_<<vars, last>>

\* a PRISM created now is wired from the System's state at this moment
SnapshotFaithful ==
    (last.act \in {"CreatePRISM", "SysSolve"} /\ last.raises = "") => prisms[Len(prisms)].snap = cfg

\* a sweep step gives what a fresh System with these parameters gives
SweepEqualsFresh ==
    (last.act = "SysSolve" /\ last.raises = "") => last.result = <<"Snap", cfg>>
=============================================================================
