---------------------------- MODULE OmegaModels ----------------------------
(***************************************************************************)
(* Property C11: the analytic intramolecular correlation functions.        *)
(*                                                                         *)
(* Every chain model is DEFINED by the pair sum over its N sites           *)
(*        omega(k) = (1/N) Sum_{i,j = 1..N} w_|i-j|(k),     w_0 = 1        *)
(* with a model-specific weight w_n(k) (Gaussian: E^n, E = exp(-k^2 s^2/6);*)
(* freely jointed: E = sin(kl)/(kl); ring: exp(-k^2 s^2 n(N-n)/(6N));      *)
(* Koyama / non-overlapping FJC: the model's own kernel).  The module      *)
(* states the pair sum, its weight form 1 + (2/N) Sum_n (N-n) w_n (the     *)
(* shape every implementation evaluates), the closed form used for         *)
(* geometric weights and the ring sum, and TLC checks in exact rational    *)
(* arithmetic, for every N up to MaxN and a sample of weights, that they   *)
(* agree (ClosedFormEqualsPairSum, WeightFormEqualsPairSum, RingSum), the  *)
(* limits (LimitAtOne = N, LimitAtZero = 1), the bound omega <= N, the     *)
(* number of ordered pairs per separation (PairCount) and the validity     *)
(* rule of the Koyama parameters (KoyamaValidity).  The weight-form terms  *)
(* are exported; the harness evaluates them (generic evaluator) for the    *)
(* real N and k and compares the real classes with them.                   *)
(***************************************************************************)
EXTENDS Term, FiniteSets

CONSTANTS MaxN,     \* exact statements are checked for every N in 2 .. MaxN
          ObjNs     \* chain lengths of the model objects of the state machine (replayed on the real classes)

Ns == 2 .. MaxN
Ws == {<<0, 1>>, <<1, 4>>, <<1, 3>>, <<1, 2>>, <<2, 3>>, <<-1, 4>>, <<-1, 5>>}      \* sample values of E (FJC: E can be negative)

\* ------------------------------------------------------------------ exact definitions
AbsI(x) == IF x < 0 THEN -x ELSE x
RECURSIVE SumI(_, _, _)
SumI(F(_), lo, hi) == IF hi < lo THEN RZero ELSE RAdd(F(hi), SumI(F, lo, hi - 1))
\* the defining double sum over ordered pairs of sites, W a function separation -> rational with W[0] = 1
PairSum(N, W) == RDiv(SumI(LAMBDA i : SumI(LAMBDA j : W[AbsI(i - j)], 1, N), 1, N), <<N, 1>>)
\* weight form: each separation n >= 1 occurs for 2(N - n) ordered pairs
WeightForm(N, W) == RAdd(ROne, SumI(LAMBDA n : RMul(<<2 * (N - n), N>>, W[n]), 1, N - 1))
Geometric(N, E) == [n \in 0 .. N |-> RPow(E, n)]
ClosedForm(N, E) ==          \* (1 - E^2 - 2E/N + 2E^(N+1)/N) / (1 - E)^2
    RDiv(RAdd(RSub(RSub(ROne, RMul(E, E)), RDiv(RMul(<<2, 1>>, E), <<N, 1>>)), RDiv(RMul(<<2, 1>>, RPow(E, N + 1)), <<N, 1>>)),
         RMul(RSub(ROne, E), RSub(ROne, E)))
\* ring: the weight depends on the separation along the ring, w_n = G^(n(N-n)), G = exp(-k^2 s^2/(6N))
RingW(N, G) == [n \in 0 .. N |-> RPow(G, n * (N - n))]
RingSumDef(N, G) == SumI(LAMBDA n : RingW(N, G)[n], 0, N - 1)

\* ------------------------------------------------------------------ terms handed to the harness
N_ == TV("N")
n_ == TV("n")
k_ == TV("k")
WeightFormTerm(w) == TAdd(TI(1), TSum("n", TI(1), TSub(N_, TI(1)), TMul(TDiv(TMul(TI(2), TSub(N_, n_)), N_), w)))
GaussE == TExp(TNeg(TDiv(TMul(TMul(k_, k_), TMul(TV("sigma"), TV("sigma"))), TI(6))))
FJCE   == TDiv(TSin(TMul(k_, TV("l"))), TMul(k_, TV("l")))
ModelTerms ==
    [Gaussian   |-> WeightFormTerm(TVPow(GaussE, n_)),
     FreelyJointedChain |-> WeightFormTerm(TVPow(FJCE, n_)),
     GaussianRing |-> TSum("n", TI(0), TSub(N_, TI(1)),
                           TExp(TNeg(TDiv(TMul(TMul(TMul(k_, k_), TMul(TV("sigma"), TV("sigma"))), TMul(n_, TSub(N_, n_))), TMul(TI(6), N_))))),
     DiscreteKoyama |-> WeightFormTerm(TFn("kernel", n_)),
     SingleSite |-> TI(1),
     NoIntra    |-> TI(0),
     ClosedForm |-> TDiv(TAdd(TSub(TSub(TI(1), TMul(TV("E"), TV("E"))), TDiv(TMul(TI(2), TV("E")), N_)),
                              TDiv(TMul(TI(2), TVPow(TV("E"), TAdd(N_, TI(1)))), N_)),
                         TPow(TSub(TI(1), TV("E")), 2)),
     GeometricWeightForm |-> WeightFormTerm(TVPow(TV("E"), n_))]

\* ------------------------------------------------------------------ Koyama parameter rule (exact rationals)
\* sites two bonds apart overlap unless l > sigma/2 and lp >= lp_min = 4 l^3 / (4 l^2 - sigma^2)
KoyamaValid(sigma, l, lp) ==
    /\ RLess(sigma, RMul(<<2, 1>>, l))
    /\ RLeq(RDiv(RMul(<<4, 1>>, RPow(l, 3)), RSub(RMul(<<4, 1>>, RMul(l, l)), RMul(sigma, sigma))), lp)
KoyamaCases == {<<s, l, lp>> \in {ROne, <<3, 5>>} \X {<<2, 5>>, <<1, 2>>, <<3, 5>>, ROne, <<3, 2>>} \X {ROne, <<4, 3>>, <<27, 20>>, <<2, 1>>, <<5, 1>>} : TRUE}

\* ------------------------------------------------------------------ state: one model object
Kinds == {"Gaussian", "FreelyJointedChain", "GaussianRing", "DiscreteKoyama", "NonOverlappingFreelyJointedChain", "SingleSite", "NoIntra"}
KGrids == {"domain_dr", "domain_dk", "log", "single", "reversed"}
VARIABLES obj,      \* [kind, N, par]  or [kind |-> "none"]
          last
vars == <<obj, last>>

Init == obj = [kind |-> "none"] /\ last = [act |-> "Init"]

Construct(kind, N) ==
    /\ obj.kind = "none" /\ kind # "DiscreteKoyama"
    /\ obj' = [kind |-> kind, N |-> IF kind \in {"SingleSite", "NoIntra"} THEN 1 ELSE N, par |-> <<>>]
    /\ last' = [act |-> "Construct", kind |-> kind, N |-> obj'.N, raises |-> "none"]
ConstructKoyama(N, c) ==
    /\ obj.kind = "none"
    /\ LET ok == KoyamaValid(c[1], c[2], c[3])
       IN  /\ obj' = IF ok THEN [kind |-> "DiscreteKoyama", N |-> N, par |-> c] ELSE obj
           /\ last' = [act |-> "Construct", kind |-> "DiscreteKoyama", N |-> N, par |-> c,
                       raises |-> IF ok THEN "none" ELSE "ValueError"]
\* evaluation on a grid family; the value at one k does not depend on the rest of the array and not on
\* earlier evaluations (the object is unchanged as far as the next result is concerned)
Calculate(g) ==
    /\ obj.kind # "none"
    /\ UNCHANGED obj
    /\ last' = [act |-> "Calculate", grid |-> g, kind |-> obj.kind, N |-> obj.N,
                limit0 |-> IF obj.kind = "NoIntra" THEN 0 ELSE obj.N,        \* k -> 0
                limitInf |-> IF obj.kind = "NoIntra" THEN 0 ELSE 1,          \* k -> infinity
                bound |-> obj.N]
Next == \/ \E kind \in Kinds, N \in ObjNs : Construct(kind, N)
        \/ \E N \in ObjNs, c \in KoyamaCases : ConstructKoyama(N, c)
        \/ \E g \in KGrids : Calculate(g)

\* ------------------------------------------------------------------ statements (constant level: checked once)
ASSUME WeightFormEqualsPairSum ==
    \A N \in Ns, E \in Ws : WeightForm(N, Geometric(N, E)) = PairSum(N, Geometric(N, E))
ASSUME ClosedFormEqualsPairSum ==
    \A N \in Ns, E \in Ws : ClosedForm(N, E) = PairSum(N, Geometric(N, E))
ASSUME TermsAgreeWithDefinitions ==
    \A N \in Ns, E \in Ws :
        /\ REval(ModelTerms.GeometricWeightForm, [N |-> <<N, 1>>, E |-> E]) = PairSum(N, Geometric(N, E))
        /\ LET c == REval(ModelTerms.ClosedForm, [N |-> <<N, 1>>, E |-> E])
           IN  IsDef(c) => c = PairSum(N, Geometric(N, E))
ASSUME RingSum ==
    \A N \in 2 .. 6, G \in {<<1, 2>>, <<2, 3>>, ROne, RZero} :
        PairSum(N, RingW(N, G)) = RingSumDef(N, G)
ASSUME LimitAtOne  == \A N \in Ns : PairSum(N, Geometric(N, ROne)) = <<N, 1>> /\ RingSumDef(N, ROne) = <<N, 1>>
ASSUME LimitAtZero == \A N \in Ns : PairSum(N, Geometric(N, RZero)) = ROne /\ RingSumDef(N, RZero) = ROne
ASSUME Bounded == \A N \in Ns, E \in Ws : RLeq(PairSum(N, Geometric(N, E)), <<N, 1>>)
\* the number of ORDERED pairs at separation n among N sites is 2(N - n): N(N-1) in total, plus N self terms
ASSUME PairCount ==
    \A N \in Ns : /\ \A n \in 1 .. N - 1 : Cardinality({p \in (1 .. N) \X (1 .. N) : AbsI(p[1] - p[2]) = n}) = 2 * (N - n)
                  /\ SumI(LAMBDA n : <<2 * (N - n), 1>>, 1, N - 1) = <<N * (N - 1), 1>>
ASSUME KoyamaValidity ==
    /\ ~KoyamaValid(ROne, <<1, 2>>, <<5, 1>>)            \* l = sigma/2: overlap for every lp
    /\ ~KoyamaValid(ROne, ROne, ROne)                    \* lp below lp_min = 4/3
    /\ KoyamaValid(ROne, ROne, <<4, 3>>)                 \* exactly the freely jointed limit
    /\ KoyamaValid(ROne, <<3, 5>>, <<5, 1>>)
\* ---- dimensional analysis of the definitions: omega(k) does not depend on the unit of length.  LenDeg is the exponent of
\* length carried by a term (k: -1; sigma, l, lp: +1; N, n, E and numbers: 0); Bad marks a term that adds unlike quantities or
\* feeds a dimensional quantity to exp / sin / a variable power.  The opaque Koyama kernel "kernel"(n) is, by contract, a function
\* of the dimensionless groups k l, sigma / l, lp / l and n only: the harness binds that contract by evaluating every model with
\* all lengths divided by s on the grid k s (clause UnitInvariant).  NonOverlappingFreelyJointedChain is left out: its documented
\* defining sum writes the excluded-volume correction in units of the bond length (sin(k)/k, not sin(k l)/(k l)).
Bad == 99
LenDegOf == [k |-> -1, sigma |-> 1, l |-> 1, lp |-> 1, N |-> 0, n |-> 0, E |-> 0]
RECURSIVE LenDeg(_)
LenDeg(t) ==
    LET op == t[1] IN
    CASE op = "q" -> 0
      [] op = "v" -> IF t[2] \in DOMAIN LenDegOf THEN LenDegOf[t[2]] ELSE Bad
      [] op \in {"add", "sub"} -> LET a == LenDeg(t[2]) b == LenDeg(t[3]) IN IF a = Bad \/ b = Bad \/ a # b THEN Bad ELSE a
      [] op = "mul" -> LET a == LenDeg(t[2]) b == LenDeg(t[3]) IN IF a = Bad \/ b = Bad THEN Bad ELSE a + b
      [] op = "div" -> LET a == LenDeg(t[2]) b == LenDeg(t[3]) IN IF a = Bad \/ b = Bad THEN Bad ELSE a - b
      [] op = "neg" -> LenDeg(t[2])
      [] op \in {"exp", "ln", "sin"} -> IF LenDeg(t[2]) = 0 THEN 0 ELSE Bad
      [] op = "sqrt" -> LET a == LenDeg(t[2]) IN IF a = Bad \/ a % 2 # 0 THEN Bad ELSE a \div 2
      [] op = "pow" -> LET a == LenDeg(t[2]) IN IF a = Bad THEN Bad ELSE a * t[3]
      [] op = "vpow" -> IF LenDeg(t[2]) = 0 /\ LenDeg(t[3]) = 0 THEN 0 ELSE Bad
      [] op = "sum" -> IF LenDeg(t[3]) = 0 /\ LenDeg(t[4]) = 0 THEN LenDeg(t[5]) ELSE Bad
      [] op = "fn" -> IF LenDeg(t[3]) = 0 THEN 0 ELSE Bad          \* contract of the opaque kernel, see above
      [] OTHER -> Bad
ASSUME UnitInvariantDefinitions ==
    /\ \A m \in {"Gaussian", "FreelyJointedChain", "GaussianRing", "DiscreteKoyama", "SingleSite", "NoIntra", "ClosedForm", "GeometricWeightForm"} :
          LenDeg(ModelTerms[m]) = 0
    /\ LenDeg(TMul(k_, k_)) = -2 /\ LenDeg(TExp(k_)) = Bad /\ LenDeg(TAdd(k_, TV("sigma"))) = Bad      \* the analysis is not vacuous
\* invariant of the object machine: a Koyama object exists only with valid parameters
KoyamaRejectsOverlap == obj.kind = "DiscreteKoyama" => KoyamaValid(obj.par[1], obj.par[2], obj.par[3])
=============================================================================
