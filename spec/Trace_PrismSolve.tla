-------------------------- MODULE Trace_PrismSolve --------------------------
(***************************************************************************)
(* Validation of prism.solve events recorded from real executions (the     *)
(* repository's PRISM / CalcPRISM / System tests, the drivers) against     *)
(* spec/PrismSolve.tla.  The observer evaluates, with the independent      *)
(* evaluator, whether the arrays left on the object satisfy the PRISM      *)
(* equation and the closures for the user's inputs (eq, clos in {within,   *)
(* beyond, unjudged}); every event must be an outcome the Solve action     *)
(* allows.                                                                 *)
(***************************************************************************)
EXTENDS PrismSolve, Json, IOUtils, Sequences

Log == ndJsonDeserialize(IOEnv.TRACE_FILE)
VARIABLE l

Clause(name, c) == c \/ (PrintT(<<"REJECT", ToJson([l |-> l, clause |-> name, seq |-> Log[l].seq])>>) /\ FALSE)
Class(x) == IF x = "unjudged" THEN "within" ELSE x        \* not evaluated (grid too long): nothing claimed

TrSolve ==
    /\ l <= Len(Log) /\ Log[l].ev = "prism.solve"
    /\ l' = l + 1
    /\ LET e == Log[l]
       IN  /\ Clause("PrismEquationHolds", Allowed(e.success = 1, Class(e.eqclass), "within"))
           /\ Clause("ClosureHolds", Allowed(e.success = 1, "within", Class(e.closclass)))
           /\ solved' = (solved \/ e.success = 1)
           /\ last' = [act |-> "Solve", method |-> "?", guess |-> "?", success |-> (e.success = 1),
                       eq |-> Class(e.eqclass), clos |-> Class(e.closclass)]
    /\ UNCHANGED cfg

TraceInit == Init /\ l = 1
TraceNext == TrSolve
TraceView == <<vars, l>>
TraceAccepted ==
    LET d == TLCGet("stats").diameter - 1
    IN  /\ PrintT(<<"TRACE", ToJson([accepted |-> d, total |-> Len(Log)])>>)
        /\ d = Len(Log)
=============================================================================
