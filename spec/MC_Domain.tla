----------------------------- MODULE MC_Domain -----------------------------
EXTENDS Domain, Json
MC_Spacings  == {<<1, 2>>, <<1, 10>>, <<3, 40>>}
St      == [len |-> len,  dr |-> dr,  dk |-> dk,  built |-> built,  ma |-> ma]
StPrime == [len |-> len', dr |-> dr', dk |-> dk', built |-> built', ma |-> ma']
Info   == [fwd |-> Fwd, bwd |-> Bwd, c2 |-> C2, c3 |-> C3, dst |-> DSTFactor]
MCInit == CInit /\ PrintT(<<"INIT", ToJson(St)>>) /\ PrintT(<<"INFO", ToJson(Info)>>)
\* transform machine: start from a constructed domain
TInit  == /\ len = 4 /\ dr = <<1, 2, 0>> /\ dk = Conj(<<1, 2, 0>>, 4)
          /\ built = [len |-> 4, dr |-> dr, dk |-> dk, nr |-> 4, nk |-> 4] /\ steps = 0
          /\ ma \in {[space |-> s, word |-> <<>>] : s \in {"Real", "Fourier"}}
          /\ last = [act |-> "Init"]
          /\ PrintT(<<"INIT", ToJson(St)>>)
          /\ PrintT(<<"INFO", ToJson(Info)>>)
View   == vars
Edge   == PrintT(<<"EDGE", ToJson([from |-> St, to |-> StPrime, l |-> last'])>>)
NoEdge == TRUE
TConstraint == Len(ma.word) <= 3
=============================================================================
