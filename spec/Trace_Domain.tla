---------------------------- MODULE Trace_Domain ----------------------------
(***************************************************************************)
(* Validation of Domain events recorded from real pyPRISM executions       *)
(* (hook pyPRISM/_verif_trace.py, observer harness/observer.py) against    *)
(* spec/Domain.tla.  The trace is the concatenation of the per-object      *)
(* sub-traces (a "domain.new" event starts a new object).  Each event is   *)
(* the specification's own action with the logged arguments bound, plus    *)
(* the logged witnesses of the real object's state:                        *)
(*   nr, nk           sizes of the real grids          (GridSize)          *)
(*   conj             dr*dk*length/pi * 10^6           (Conjugate/NotStale)*)
(*   r1, rn, k1, kn   r[0]/dr, r[-1]/(n dr), ... * 10^6 (grid built from   *)
(*                    the current spacings)                                *)
(*   c2, c3           coefficient arrays / (2 pi r dr), (k dk/4 pi^2)      *)
(* A spacing is bound as the rational round(1000*x)/1000: the specification*)
(* uses it symbolically only.                                              *)
(***************************************************************************)
EXTENDS Domain, Json, IOUtils


Log == ndJsonDeserialize(IOEnv.TRACE_FILE)

VARIABLE l

Clause(name, c) == c \/ (PrintT(<<"REJECT", ToJson([l |-> l, clause |-> name, seq |-> Log[l].seq])>>) /\ FALSE)

IsEvent(e) == l <= Len(Log) /\ Log[l].ev = e /\ l' = l + 1

Near(x, y, tol) == x - y <= tol /\ y - x <= tol
Q(x) == RNorm(IF x = 0 THEN 1 ELSE x, 1000)

Witness(e) ==
    /\ Clause("GridSize.nr", e.nr = built'.nr)
    /\ Clause("GridSize.nk", e.nk = built'.nk)
    /\ Clause("Length", e.len = len')
    /\ Clause("Conjugate", Near(e.conj, 1000000, 2))
    /\ Clause("NotStale.r", Near(e.r1, 1000000, 2) /\ Near(e.rn, 1000000, 2))
    /\ Clause("NotStale.k", Near(e.k1, 1000000, 2) /\ Near(e.kn, 1000000, 2))
    /\ Clause("ForwardCoefficient", Near(e.c2, 1000000, 2))
    /\ Clause("BackwardCoefficient", Near(e.c3, 1000000, 2))

Failed(e) == e.exc # ""

TrNew == /\ IsEvent("domain.new")
         /\ LET e == Log[l]
            IN  IF Failed(e) THEN UNCHANGED vars /\ UNCHANGED last
                ELSE /\ \/ (e.from = "dr" /\ NewFromDr(e.len, Q(e.drm)))
                        \/ (e.from = "dk" /\ NewFromDk(e.len, Q(e.dkm)))
                     /\ Witness(e)

TrSetDr == /\ IsEvent("domain.set_dr")
           /\ LET e == Log[l] IN SetDr(Q(e.drm)) /\ Witness(e)

TrSetDk == /\ IsEvent("domain.set_dk")
           /\ LET e == Log[l] IN SetDk(Q(e.dkm)) /\ Witness(e)

TrSetLen == /\ IsEvent("domain.set_length")
            /\ LET e == Log[l] IN SetLen(e.len) /\ Witness(e)

\* user-level MatrixArray transforms: the guard of part 2
SpaceName(n) == CASE n = 1 -> "Real" [] n = 2 -> "Fourier" [] OTHER -> "NonSpatial"
TrToFourier ==
    /\ IsEvent("domain.ma_to_fourier")
    /\ LET e == Log[l]
       IN  /\ ma' = [space |-> SpaceName(e.post), word |-> <<>>]
           /\ Clause("SpaceGuard.raises", (e.exc = "ValueError") <=> (e.pre = 2))
           /\ Clause("SpaceGuard.flag", IF e.pre = 2 THEN e.post = 2 ELSE (e.exc # "" \/ e.post = 2))
           /\ Clause("MatrixArray.symmetric", e.exc # "" \/ e.sym # 0)
           /\ UNCHANGED <<cvars, last>>
TrToReal ==
    /\ IsEvent("domain.ma_to_real")
    /\ LET e == Log[l]
       IN  /\ ma' = [space |-> SpaceName(e.post), word |-> <<>>]
           /\ Clause("SpaceGuard.raises", (e.exc = "ValueError") <=> (e.pre = 1))
           /\ Clause("SpaceGuard.flag", IF e.pre = 1 THEN e.post = 1 ELSE (e.exc # "" \/ e.post = 1))
           /\ Clause("MatrixArray.symmetric", e.exc # "" \/ e.sym # 0)
           /\ UNCHANGED <<cvars, last>>

TraceInit == CInit /\ l = 1
TraceNext == TrNew \/ TrSetDr \/ TrSetDk \/ TrSetLen \/ TrToFourier \/ TrToReal
TraceView == <<vars, l>>

TraceAccepted ==
    LET d == TLCGet("stats").diameter - 1
    IN  /\ PrintT(<<"TRACE", ToJson([accepted |-> d, total |-> Len(Log)])>>)
        /\ d = Len(Log)
=============================================================================
