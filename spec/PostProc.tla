------------------------------ MODULE PostProc ------------------------------
(***************************************************************************)
(* Post-processing of one solved PRISM object (property C06).              *)
(*                                                                         *)
(* State of the object as far as calculate.* is concerned: for each of the *)
(* three stored arrays H (totalCorr), C (directCorr), W (omega)            *)
(*   flag[x]  the space its .space attribute claims,                       *)
(*   rep[x]   the space its data is actually represented in,               *)
(*   ok[x]    whether the data still is the solved content.                *)
(* Every calculate function needs some arrays in a definite space (Needs); *)
(* it may transform them in place (flag and representation move together)  *)
(* or restore them afterwards - the property does not prescribe which - so *)
(* the post-call flag of a needed array is either the needed space or the  *)
(* previous one; arrays a function does not need are untouched.            *)
(* The value returned depends only on the function, its flags and the      *)
(* solved content ("Ref"): never on the spaces, never on the history.      *)
(*                                                                         *)
(* Deviations of real code from this are NAMED actions, enabled only in    *)
(* the self-test configuration (Deviant = TRUE): they show that TLC does   *)
(* reject them (ContentsPristine / FlagTruthful).                          *)
(***************************************************************************)
EXTENDS Naturals, Sequences, FiniteSets, TLC

CONSTANTS Rank,       \* number of site types of the solved system (chi, spinodal, solvation need > 1)
          MaxResolve, \* how many re-solves from the object's own solution are explored
          Deviant

Arrays == {"H", "C", "W"}
Sp     == {"R", "F"}

VARIABLES flag, rep, ok,
          epoch,      \* number of re-solves so far (each defines a new solved content)
          last

vars == <<flag, rep, ok, epoch>>

\* function -> array -> needed space ("-" = not used)
Needs(fn) ==
    CASE fn = "pair_correlation"   -> [H |-> "R", C |-> "-", W |-> "-"]
      [] fn = "pmf"                -> [H |-> "R", C |-> "-", W |-> "-"]
      [] fn = "structure_factor"   -> [H |-> "F", C |-> "-", W |-> "F"]
      [] fn = "second_virial"      -> [H |-> "F", C |-> "-", W |-> "-"]
      [] fn = "chi"                -> [H |-> "-", C |-> "F", W |-> "-"]
      [] fn = "spinodal_condition" -> [H |-> "-", C |-> "F", W |-> "F"]
      [] fn = "solvation_potential"-> [H |-> "F", C |-> "F", W |-> "F"]

\* every call variant: function + the value of its flag argument
Variants ==
    {<<"pair_correlation", "-">>, <<"pmf", "-">>,
     <<"structure_factor", "normalize=True">>, <<"structure_factor", "normalize=False">>,
     <<"second_virial", "extrapolate=True">>, <<"second_virial", "extrapolate=False">>} \cup
    (IF Rank > 1 THEN
        {<<"chi", "extrapolate=True">>, <<"chi", "extrapolate=False">>,
         <<"spinodal_condition", "extrapolate=True">>, <<"spinodal_condition", "extrapolate=False">>,
         <<"solvation_potential", "closure=HNC">>, <<"solvation_potential", "closure=PY">>}
     ELSE {})

\* solve() leaves totalCorr in real space, directCorr and omega in Fourier space
Solved == /\ flag = [H |-> "R", C |-> "F", W |-> "F"]
          /\ rep  = flag
          /\ ok   = [x \in Arrays |-> TRUE]

Init == Solved /\ epoch = 0 /\ last = [act |-> "Solve"]

\* calculate.<fn>(PRISM, arg): post-call flags chosen among the allowed ones
Calc(v, post) ==
    LET need == Needs(v[1])
    IN  /\ \A x \in Arrays : post[x] \in (IF need[x] = "-" THEN {flag[x]} ELSE {flag[x], need[x]})
        /\ flag' = post
        /\ rep'  = [x \in Arrays |-> IF rep[x] = flag[x] THEN post[x] ELSE rep[x]]   \* data follows the flag
        /\ UNCHANGED <<ok, epoch>>
        /\ last' = [act |-> "Calc", fn |-> v[1], arg |-> v[2], raises |-> "", ret |-> <<"Ref", v[1], v[2], epoch>>]

\* the user moves one of the arrays to the other space through the Domain
UserTransform(x) ==
    LET other == IF flag[x] = "R" THEN "F" ELSE "R"
    IN  /\ flag' = [flag EXCEPT ![x] = other]
        /\ rep'  = [rep EXCEPT ![x] = IF rep[x] = flag[x] THEN other ELSE rep[x]]
        /\ UNCHANGED <<ok, epoch>>
        /\ last' = [act |-> "UserTransform", array |-> x, to |-> other, raises |-> ""]

\* a value returned by Calc belongs to the caller: he may overwrite it in place (normalise it, subtract one, ...).  No step of this
\* machine: the stored arrays, their flags and every later result are what they would have been.  (Not a disjunct of Next: the
\* harness composes it into every Calc step - it scribbles on every returned object right after the call - so every enumerated
\* history is also a history with all the scribbling a caller could do.)
ScribbleReturned ==
    /\ last.act = "Calc"
    /\ UNCHANGED <<flag, rep, ok, epoch>>
    /\ last' = [act |-> "ScribbleReturned", raises |-> ""]

\* PRISM.solve(guess = own solution), allowed while omega is in the representation it was built in
Resolve ==
    /\ epoch < MaxResolve
    /\ flag["W"] = "F" /\ rep["W"] = "F" /\ ok["W"]
    /\ flag' = [H |-> "R", C |-> "F", W |-> "F"]
    /\ rep'  = flag'
    /\ ok'   = [x \in Arrays |-> TRUE]
    /\ epoch' = epoch + 1
    /\ last' = [act |-> "Resolve", raises |-> "", atroot |-> TRUE]

\* ---------------------------------------------------------------- named deviations
\* pinned pyPRISM: spinodal_condition divides views of omega by the site density in place
SpinodalScalesOmega ==
    /\ Deviant /\ Rank > 1
    /\ flag' = [flag EXCEPT !["C"] = "F", !["W"] = "F"]
    /\ rep'  = [rep EXCEPT !["C"] = "F", !["W"] = "F"]
    /\ ok'   = [ok EXCEPT !["W"] = FALSE]
    /\ UNCHANGED epoch
    /\ last' = [act |-> "Calc", fn |-> "spinodal_condition", arg |-> "extrapolate=True", raises |-> "",
                ret |-> <<"Ref", "spinodal_condition", "extrapolate=True", epoch>>]
\* a function transforms an array and forgets to update the flag
TransformForgetsFlag ==
    /\ Deviant
    /\ flag["H"] = "F"
    /\ rep' = [rep EXCEPT !["H"] = "R"]
    /\ UNCHANGED <<flag, ok, epoch>>
    /\ last' = [act |-> "Calc", fn |-> "pair_correlation", arg |-> "-", raises |-> "",
                ret |-> <<"Ref", "pair_correlation", "-", epoch>>]

Next == \/ \E v \in Variants, post \in [Arrays -> Sp] : Calc(v, post)
        \/ \E x \in Arrays : UserTransform(x)
        \/ Resolve
        \/ SpinodalScalesOmega
        \/ TransformForgetsFlag

\* ---------------------------------------------------------------- the property
ContentsPristine == \A x \in Arrays : ok[x]
FlagTruthful     == \A x \in Arrays : rep[x] = flag[x]
NoSpaceError     == last.act \in {"Calc", "UserTransform", "Resolve"} => last.raises = ""
\* the returned value is a function of (function, argument, solved content) only
ResultDependsOnlyOnContents ==
    last.act = "Calc" => last.ret = <<"Ref", last.fn, last.arg, epoch>>
\* after a (re-)solve the stored arrays are those of the returned root, in the solver's spaces
SolveLeavesRoot == last.act \in {"Solve", "Resolve"} => Solved
=============================================================================
