--------------------------- MODULE MC_OmegaSource ---------------------------
EXTENDS OmegaSource, Json
St      == [src |-> src,  dom |-> dom,  rank |-> rank,  stage |-> stage,  mutated |-> mutated, regridded |-> regridded]
StPrime == [src |-> src', dom |-> dom', rank |-> rank', stage |-> stage', mutated |-> mutated', regridded |-> regridded']
MCInit == Init /\ PrintT(<<"INIT", ToJson(St)>>)
View   == <<src, dom, rank, stage, mutated, regridded>>
Edge   == PrintT(<<"EDGE", ToJson([from |-> St, to |-> StPrime, l |-> last'])>>)
NoEdge == TRUE
=============================================================================
