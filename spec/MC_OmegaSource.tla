--------------------------- MODULE MC_OmegaSource ---------------------------
EXTENDS OmegaSource, Json
St      == [src |-> src,  dom |-> dom,  rank |-> rank,  stage |-> stage,  mutated |-> mutated]
StPrime == [src |-> src', dom |-> dom', rank |-> rank', stage |-> stage', mutated |-> mutated']
MCInit == Init /\ PrintT(<<"INIT", ToJson(St)>>)
View   == <<src, dom, rank, stage, mutated>>
Edge   == PrintT(<<"EDGE", ToJson([from |-> St, to |-> StPrime, l |-> last'])>>)
NoEdge == TRUE
=============================================================================
