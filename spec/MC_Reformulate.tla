---------------------------- MODULE MC_Reformulate ----------------------------
EXTENDS Reformulate, Json
St      == [base |-> base]
MCInit == Init /\ PrintT(<<"INIT", ToJson(St)>>)
View   == <<base, depth>>
Edge   == PrintT(<<"EDGE", ToJson([from |-> St, to |-> St, l |-> last'])>>)
NoEdge == TRUE
=============================================================================
