----------------------------- MODULE Reformulate -----------------------------
(***************************************************************************)
(* Property C04: physically meaningless reformulations of the input.       *)
(*                                                                         *)
(* A base system is named by its number of site types and its closure /    *)
(* potential / omega patterns (the families of PrismSolve).  The actions   *)
(* are the reformulations of the statement, each with the relation it      *)
(* must induce on the results:                                             *)
(*   Permute(p)      the type list re-ordered by p      -> results permuted*)
(*   SplitMono(a,b)  monatomic A -> A/A', rho = a:b      -> g_AA=g_AB=g_BB=g*)
(*   SplitDiblock    homopolymer -> symmetric diblock    -> g_AA=g_AB=g_BB=g*)
(*   Scale(s)        all energies and kT times s         -> structure same, *)
(*                                                          pmf times s     *)
(* That these relations hold for ONE evaluation of the cost function is    *)
(* proved on exact instances in PrismCore.tla (PermEquivariant,            *)
(* SplitMonatomic, SplitDiblock) and ClosureDefs.tla (EnergyLinear); this  *)
(* module enumerates which reformulation applies to which base system and  *)
(* that reformulations compose (a reformulated system is again a base      *)
(* system of the same physical content: `content` never changes).          *)
(***************************************************************************)
EXTENDS Naturals, FiniteSets, TLC

CONSTANTS Ranks, ClosurePatterns, PotentialPatterns, OmegaPatterns, Ratios, Scales

VARIABLES base,      \* [rank, clo, pot, om]
          content,   \* the physical system the (possibly reformulated) input describes
          depth, last
vars == <<base, content, depth, last>>

Init == /\ base \in [rank : Ranks, clo : ClosurePatterns, pot : PotentialPatterns, om : OmegaPatterns]
        /\ content = base /\ depth = 0
        /\ last = [act |-> "Init"]

Perms(n) == {p \in [1 .. n -> 1 .. n] : \A i, j \in 1 .. n : i # j => p[i] # p[j]}
NonTrivial(p, n) == \E i \in 1 .. n : p[i] # i

Permute(p) == /\ base.rank >= 2 /\ p \in Perms(base.rank) /\ NonTrivial(p, base.rank)
              /\ last' = [act |-> "Permute", perm |-> p, relation |-> "permuted"]
              /\ depth' = depth + 1 /\ UNCHANGED <<base, content>>
\* only a one-component system of single sites is "a monatomic fluid"
SplitMono(r) == /\ base.rank = 1 /\ base.om = "atomic"
                /\ last' = [act |-> "SplitMono", ratio |-> r, relation |-> "all_equal_to_base"]
                /\ depth' = depth + 1 /\ UNCHANGED <<base, content>>
\* only a one-component Gaussian homopolymer has the exact block omegas at hand
SplitDiblock == /\ base.rank = 1 /\ base.om = "gaussian"
                /\ last' = [act |-> "SplitDiblock", relation |-> "all_equal_to_base"]
                /\ depth' = depth + 1 /\ UNCHANGED <<base, content>>
\* the site types get other NAMES (names that are prefixes / concatenations of each other, names that differ by case or a blank):
\* nothing but the labels of the results changes
RenameStyles == {"concat", "near"}
Rename(st) == /\ last' = [act |-> "Rename", style |-> st, relation |-> "identical"]
              /\ depth' = depth + 1 /\ UNCHANGED <<base, content>>
Scale(s) == /\ last' = [act |-> "Scale", scale |-> s, relation |-> "structure_equal_pmf_scaled"]
            /\ depth' = depth + 1 /\ UNCHANGED <<base, content>>
Next == /\ depth < 1
        /\ \/ \E p \in Perms(base.rank) : Permute(p)
           \/ \E r \in Ratios : SplitMono(r)
           \/ SplitDiblock
           \/ \E s \in Scales : Scale(s)
           \/ \E st \in RenameStyles : Rename(st)

\* no reformulation changes what is being described
ContentPreserved == [][content' = content]_vars
=============================================================================
