------------------------------ MODULE PrismCore ------------------------------
(***************************************************************************)
(* The Fourier-space PRISM algebra of one evaluation of PRISM.cost, step   *)
(* by step as the code takes it, in exact rational arithmetic (properties  *)
(* C01, C04).                                                              *)
(*                                                                         *)
(* An instance is one wavenumber of a system with R site types: the        *)
(* intramolecular matrix W (as the omega objects return it, NOT yet scaled *)
(* by density), the direct correlation matrix C, the site densities rho.   *)
(* The actions are the statements of PRISM.__init__ / PRISM.cost:          *)
(*    ScaleOmega   Omega = W o rhoSite         (omega *= density.site)     *)
(*    DotOC        OC = Omega . C                                          *)
(*    Invert       IOC = (I - OC)^-1           (adjugate / determinant)    *)
(*    DotH         P  = IOC . OC . Omega       (pair-density-scaled H)     *)
(*    DividePair   H  = P / rhoPair            (totalCorr /= density.pair) *)
(*    GammaOut     G  = H - C                                              *)
(* and the statements of C01 are invariants of the final stage:            *)
(*    PrismEq      P = Omega C (Omega + P)                                 *)
(*    SkIdentity   (I - Omega C)(Omega + P) = Omega                        *)
(* C04 at the level of one evaluation (solver independent):                *)
(*    PermEquivariant   relabelling the types permutes H                   *)
(*    SplitMonatomic    A -> A/A' with rho = rho' + rho'': all H_ab = h    *)
(*    SplitDiblock      homopolymer -> symmetric diblock: all H_ab = h     *)
(* Named deviations (Deviation # "none") exist only to show that the       *)
(* invariants are not vacuous (self-test configurations).                   *)
(***************************************************************************)
EXTENDS Mono, FiniteSets, Sequences

CONSTANTS R,          \* number of site types (1 .. 3)
          Seeds,      \* instance seeds
          Deviation   \* "none" | "pair_density" | "dot_order" | "no_pair_division"

T == 1 .. R
Mat(F(_, _)) == [i \in T |-> [j \in T |-> F(i, j)]]
RECURSIVE SumK(_, _)
SumK(F(_), n) == IF n = 0 THEN RZero ELSE RAdd(F(n), SumK(F, n - 1))
MatMul(A, B) == Mat(LAMBDA i, j : SumK(LAMBDA k : RMul(A[i][k], B[k][j]), R))
MatSub(A, B) == Mat(LAMBDA i, j : RSub(A[i][j], B[i][j]))
MatAdd(A, B) == Mat(LAMBDA i, j : RAdd(A[i][j], B[i][j]))
MatHad(A, B) == Mat(LAMBDA i, j : RMul(A[i][j], B[i][j]))
MatHadDiv(A, B) == Mat(LAMBDA i, j : RDiv(A[i][j], B[i][j]))
Ident == Mat(LAMBDA i, j : IF i = j THEN ROne ELSE RZero)

\* determinant and adjugate for R <= 3
Det2(a, b, c, d) == RSub(RMul(a, d), RMul(b, c))
Det(A) == CASE R = 1 -> A[1][1]
            [] R = 2 -> Det2(A[1][1], A[1][2], A[2][1], A[2][2])
            [] R = 3 -> RAdd(RSub(RMul(A[1][1], Det2(A[2][2], A[2][3], A[3][2], A[3][3])),
                                  RMul(A[1][2], Det2(A[2][1], A[2][3], A[3][1], A[3][3]))),
                             RMul(A[1][3], Det2(A[2][1], A[2][2], A[3][1], A[3][2])))
Others(i) == IF i = 1 THEN <<2, 3>> ELSE IF i = 2 THEN <<1, 3>> ELSE <<1, 2>>
Cofactor(A, i, j) ==
    CASE R = 1 -> ROne
      [] R = 2 -> LET v == A[3 - i][3 - j] IN IF (i + j) % 2 = 0 THEN v ELSE RNeg(v)
      [] R = 3 -> LET r == Others(i)
                      c == Others(j)
                      m == Det2(A[r[1]][c[1]], A[r[1]][c[2]], A[r[2]][c[1]], A[r[2]][c[2]])
                  IN  IF (i + j) % 2 = 0 THEN m ELSE RNeg(m)
Inverse(A) == LET d == Det(A) IN Mat(LAMBDA i, j : RDiv(Cofactor(A, j, i), d))

\* ---------------------------------------------------------------- instances
Mn(a, b) == IF a < b THEN a ELSE b
Mx(a, b) == IF a < b THEN b ELSE a
Gen(seed, tag, i, j, m) == (seed * 7 + tag * 13 + Mn(i, j) * 3 + Mx(i, j) * 11 + Mn(i, j) * Mx(i, j) * 5 + seed * seed * tag) % m
Instance(seed) ==
    [seed |-> seed,
     W   |-> Mat(LAMBDA i, j : IF i = j THEN <<1 + Gen(seed, 1, i, j, 3), 1>> ELSE <<Gen(seed, 2, i, j, 2), 1>>),
     C   |-> Mat(LAMBDA i, j : RNorm(Gen(seed, 3, i, j, 9) - 4, 4)),
     rho |-> [i \in T |-> RNorm(1 + Gen(seed, 4, i, i, 4), 2)]]
RhoSite(I) == Mat(LAMBDA i, j : IF i = j THEN I.rho[i] ELSE RAdd(I.rho[i], I.rho[j]))
RhoPair(I) == Mat(LAMBDA i, j : RMul(I.rho[i], I.rho[j]))
NonSingular(I) == Det(MatSub(Ident, MatMul(MatHad(I.W, RhoSite(I)), I.C)))[1] # 0

\* ---------------------------------------------------------------- the pipeline
VARIABLES inst, stage, Om, OC, IOC, P, H, G, last
vars == <<inst, stage, Om, OC, IOC, P, H, G, last>>
Null == <<>>

Init == /\ \E s \in Seeds : inst = Instance(s) /\ NonSingular(Instance(s))
        /\ stage = "constructed"
        /\ Om = Null /\ OC = Null /\ IOC = Null /\ P = Null /\ H = Null /\ G = Null
        /\ last = [act |-> "Init"]

ScaleOmega == /\ stage = "constructed"
              /\ Om' = MatHad(inst.W, IF Deviation = "pair_density" THEN RhoPair(inst) ELSE RhoSite(inst))
              /\ stage' = "wired" /\ last' = [act |-> "ScaleOmega"]
              /\ UNCHANGED <<inst, OC, IOC, P, H, G>>
DotOC == /\ stage = "wired"
         /\ OC' = IF Deviation = "dot_order" THEN MatMul(inst.C, Om) ELSE MatMul(Om, inst.C)
         /\ stage' = "oc" /\ last' = [act |-> "DotOC"]
         /\ UNCHANGED <<inst, Om, IOC, P, H, G>>
Invert == /\ stage = "oc"
          /\ IOC' = Inverse(MatSub(Ident, OC))
          /\ stage' = "inverted" /\ last' = [act |-> "Invert"]
          /\ UNCHANGED <<inst, Om, OC, P, H, G>>
DotH == /\ stage = "inverted"
        /\ P' = MatMul(MatMul(IOC, OC), Om)
        /\ stage' = "dotted" /\ last' = [act |-> "DotH"]
        /\ UNCHANGED <<inst, Om, OC, IOC, H, G>>
DividePair == /\ stage = "dotted"
              /\ H' = IF Deviation = "no_pair_division" THEN P ELSE MatHadDiv(P, RhoPair(inst))
              /\ stage' = "divided" /\ last' = [act |-> "DividePair"]
              /\ UNCHANGED <<inst, Om, OC, IOC, P, G>>
GammaOut == /\ stage = "divided"
            /\ G' = MatSub(H, inst.C)
            /\ stage' = "done"
            /\ last' = [act |-> "GammaOut", Omega |-> Om, OC |-> OC, H |-> H, G |-> G']
            /\ UNCHANGED <<inst, Om, OC, IOC, P, H>>
Next == ScaleOmega \/ DotOC \/ Invert \/ DotH \/ DividePair \/ GammaOut

\* the whole pipeline as a function of an instance (used by the C04 statements)
Cost(I) == LET om == MatHad(I.W, RhoSite(I))
               oc == MatMul(om, I.C)
           IN  MatHadDiv(MatMul(MatMul(Inverse(MatSub(Ident, oc)), oc), om), RhoPair(I))

\* ---------------------------------------------------------------- C01: statements from the property text
\* Omega = site-density-scaled W, PH = pair-density-scaled H, both built from the INSTANCE (the user's inputs)
TrueOmega == MatHad(inst.W, RhoSite(inst))
PH == MatHad(H, RhoPair(inst))
PrismEq    == stage = "done" => PH = MatMul(MatMul(TrueOmega, inst.C), MatAdd(TrueOmega, PH))
SkIdentity == stage = "done" => MatMul(MatSub(Ident, MatMul(TrueOmega, inst.C)), MatAdd(TrueOmega, PH)) = TrueOmega
HSymmetric == stage = "done" => \A i, j \in T : H[i][j] = H[j][i]
GammaIsHMinusC == stage = "done" => MatAdd(G, inst.C) = H
PipelineIsCost == stage = "done" => H = Cost(inst)

\* ---------------------------------------------------------------- C04 at the level of one evaluation
Perms == {p \in [T -> T] : \A i, j \in T : i # j => p[i] # p[j]}
PermInst(I, p) == [seed |-> I.seed, W |-> Mat(LAMBDA i, j : I.W[p[i]][p[j]]), C |-> Mat(LAMBDA i, j : I.C[p[i]][p[j]]),
                   rho |-> [i \in T |-> I.rho[p[i]]]]
PermEquivariant ==
    stage = "constructed" => \A p \in Perms : Cost(PermInst(inst, p)) = Mat(LAMBDA i, j : Cost(inst)[p[i]][p[j]])

\* the same pipeline for ONE site type, on scalars
Cost1(w, c, rho) == LET om == RMul(w, rho)
                        oc == RMul(om, c)
                    IN  RDiv(RMul(RMul(RDiv(ROne, RSub(ROne, oc)), oc), om), RMul(rho, rho))
AllEqual(M, v) == \A i, j \in T : M[i][j] = v
SplitCs   == {<<-1, 2>>, <<1, 3>>, <<-2, 1>>, <<1, 5>>}
SplitRhos == {<<1, 2>>, ROne, <<3, 2>>, <<2, 1>>}
\* a monatomic fluid (omega = 1, density rho' + rho'') relabelled as two species A, A' with identical interactions
ASSUME SplitMonatomic ==
    R = 2 => \A c \in SplitCs, r1 \in SplitRhos, r2 \in SplitRhos :
        LET I == [seed |-> 0, W |-> Mat(LAMBDA i, j : IF i = j THEN ROne ELSE RZero), C |-> Mat(LAMBDA i, j : c), rho |-> <<r1, r2>>]
            h == Cost1(ROne, c, RAdd(r1, r2))
        IN  RSub(ROne, RMul(RAdd(r1, r2), c))[1] # 0 => AllEqual(Cost(I), h)
\* a homopolymer (omega = a + 2b, density rho) described as the symmetric diblock of its halves with the exact block
\* omegas omega_AA = omega_BB = a, omega_AB = b (pyPRISM normalisation) and rho_A = rho_B = rho/2
ASSUME SplitDiblock ==
    R = 2 => \A c \in SplitCs, rho \in SplitRhos, a \in {ROne, <<3, 2>>, <<5, 2>>}, b \in {<<1, 4>>, <<1, 2>>, ROne} :
        LET I == [seed |-> 0, W |-> Mat(LAMBDA i, j : IF i = j THEN a ELSE b), C |-> Mat(LAMBDA i, j : c),
                  rho |-> <<RDiv(rho, <<2, 1>>), RDiv(rho, <<2, 1>>)>>]
            w == RAdd(a, RMul(<<2, 1>>, b))
            h == Cost1(w, c, rho)
        IN  RSub(ROne, RMul(RMul(rho, w), c))[1] # 0 => AllEqual(Cost(I), h)
\* the rank-1 pipeline satisfies the scalar PRISM equation rho^2 h = (rho w) c (rho w + rho^2 h)
ASSUME ScalarPrismEq ==
    \A c \in SplitCs, rho \in SplitRhos, w \in {ROne, <<5, 2>>} :
        RSub(ROne, RMul(RMul(rho, w), c))[1] # 0 =>
            LET h == Cost1(w, c, rho)
            IN  RMul(RMul(rho, rho), h) = RMul(RMul(RMul(rho, w), c), RAdd(RMul(rho, w), RMul(RMul(rho, rho), h)))
=============================================================================
