------------------------------- MODULE Chunk -------------------------------
(***************************************************************************)
(* Debyer.pyx:_chunk - how N site indices are split into C chunk rows.     *)
(* Pure integer definitions, shared by Debyer.tla (checked by TLC, bound   *)
(* to the compiled extension's chunk table) and by ChunkInd.tla (the same  *)
(* statement for EVERY N and C, discharged symbolically by Apalache).      *)
(***************************************************************************)
EXTENDS Integers

CeilDiv(a, b) == (a + b - 1) \div b
Min(a, b) == IF a < b THEN a ELSE b
ChunkSize(n, c) == CeilDiv(n, c)
\* row t of the chunk table is [ChunkLo, ChunkHi); rows beyond the data stay [0, 0)
ChunkLo(n, c, t) == IF t * ChunkSize(n, c) < n THEN t * ChunkSize(n, c) ELSE 0
ChunkHi(n, c, t) == IF t * ChunkSize(n, c) < n THEN Min((t + 1) * ChunkSize(n, c), n) ELSE 0
=============================================================================
