----------------------------- MODULE PrismSolve -----------------------------
(***************************************************************************)
(* Property C01 on solved objects.  A configuration names a family of      *)
(* systems (number of site types, which closures / potentials / omega      *)
(* models sit on which pairs); Solve(method, guess) is PRISM.solve.  The   *)
(* specification does not say whether a solve converges; it says what a    *)
(* solve that REPORTS SUCCESS leaves behind: arrays that satisfy the       *)
(* matrix PRISM equation for the user's inputs (eq) and every pair's       *)
(* closure relation (clos), each to within the bound the statement allows  *)
(* ("within"; the bounds are computed by harness/prism_eval.py from the    *)
(* user's inputs, never from the cost function).                           *)
(***************************************************************************)
EXTENDS Naturals, TLC

CONSTANTS Ranks, ClosurePatterns, PotentialPatterns, OmegaPatterns, Methods

Classes == {"within", "beyond"}
VARIABLES cfg, solved, last
vars == <<cfg, solved, last>>

Init == /\ cfg \in [rank : Ranks, clo : ClosurePatterns, pot : PotentialPatterns, om : OmegaPatterns]
        /\ solved = FALSE
        /\ last = [act |-> "Init"]

\* what a call of solve may report and leave behind
Allowed(success, eq, clos) == success => (eq = "within" /\ clos = "within")

Solve(m, g) ==
    /\ g = "own" => solved                      \* re-solve starting from the object's own converged solution
    /\ \E success \in BOOLEAN, eq \in Classes, clos \in Classes :
          /\ Allowed(success, eq, clos)
          /\ solved' = (solved \/ success)
          /\ last' = [act |-> "Solve", method |-> m, guess |-> g, success |-> success, eq |-> eq, clos |-> clos]
    /\ UNCHANGED cfg
Next == \E m \in Methods, g \in {"zero", "own", "perturbed"} : Solve(m, g)

SuccessImpliesEquations == (last.act = "Solve" /\ last.success) => (last.eq = "within" /\ last.clos = "within")
=============================================================================
