------------------------------ MODULE Lifecycle ------------------------------
(***************************************************************************)
(* The whole user-visible life of a calculation in one machine: a System   *)
(* that is edited, PRISM objects created from it and solved (through the   *)
(* System, on the object itself, or re-solved from the object's own        *)
(* solution), post-processed with calculate.* functions and user           *)
(* transforms - in any order.  It composes what SystemLife.tla (C16) and   *)
(* PostProc.tla (C06) say separately, so that TLC enumerates the histories *)
(* that CROSS the two: edit after create, solve an object created before   *)
(* an edit, post-process an old object after the System moved on, and so   *)
(* on.                                                                     *)
(*                                                                         *)
(* Abstract state: the configuration of the System (a version per editable *)
(* item) and of at most MaxPrisms PRISM objects (their frozen snapshot,    *)
(* whether solved, how often re-solved).  What any call returns is a       *)
(* function of the SNAPSHOT of the object it is applied to and of nothing  *)
(* else - that is the content of the two properties - so every observable  *)
(* is the token <<fn, snapshot>>, which the harness realises as "the value *)
(* obtained from a freshly built and solved System with the snapshot's     *)
(* parameters".                                                            *)
(***************************************************************************)
EXTENDS Naturals, Sequences, FiniteSets, TLC

CONSTANTS Editable,     \* items of the System the edit actions touch
          Fns,          \* calculate.* variants
          Arrays,       \* stored arrays a user may transform by hand
          MaxPrisms, MaxSteps

VARIABLES cfg,      \* [Editable -> 1 .. 2]
          prisms,   \* sequence of [snap, solved, epoch]
          steps, last
vars == <<cfg, prisms, steps>>

Init == /\ cfg = [i \in Editable |-> 1] /\ prisms = <<>> /\ steps = 0
        /\ last = [act |-> "Init"]

Tick == steps < MaxSteps /\ steps' = steps + 1

Edit(i) == /\ Tick
           /\ cfg' = [cfg EXCEPT ![i] = 3 - cfg[i]]
           /\ UNCHANGED prisms
           /\ last' = [act |-> "Edit", item |-> i, ver |-> cfg'[i]]
Create(solve) ==
    /\ Tick /\ Len(prisms) < MaxPrisms
    /\ prisms' = Append(prisms, [snap |-> cfg, solved |-> solve, epoch |-> 0])
    /\ UNCHANGED cfg
    /\ last' = [act |-> IF solve THEN "SysSolve" ELSE "CreatePRISM"]
\* PRISM.solve on an existing object: first solve, or re-solve from the object's own solution
PrismSolve(n) ==
    /\ Tick /\ n \in 1 .. Len(prisms)
    /\ prisms' = [prisms EXCEPT ![n].solved = TRUE, ![n].epoch = IF prisms[n].solved THEN @ + 1 ELSE @]
    /\ UNCHANGED cfg
    /\ last' = [act |-> "PrismSolve", n |-> n, guess |-> IF prisms[n].solved THEN "own" ELSE "zero"]
Calc(n, fn) ==
    /\ Tick /\ n \in 1 .. Len(prisms) /\ prisms[n].solved
    /\ UNCHANGED <<cfg, prisms>>
    /\ last' = [act |-> "Calc", n |-> n, fn |-> fn, result |-> <<fn, prisms[n].snap>>]
UserTransform(n, a) ==
    /\ Tick /\ n \in 1 .. Len(prisms) /\ prisms[n].solved
    /\ UNCHANGED <<cfg, prisms>>
    /\ last' = [act |-> "UserTransform", n |-> n, array |-> a]
Drop == /\ Tick /\ Len(prisms) = MaxPrisms
        /\ prisms' = Tail(prisms) /\ UNCHANGED cfg
        /\ last' = [act |-> "Drop"]

Next == \/ \E i \in Editable : Edit(i)
        \/ \E s \in BOOLEAN : Create(s)
        \/ \E n \in 1 .. MaxPrisms : PrismSolve(n)
        \/ \E n \in 1 .. MaxPrisms, fn \in Fns : Calc(n, fn)
        \/ \E n \in 1 .. MaxPrisms, a \in Arrays : UserTransform(n, a)
        \/ Drop

\* ---------------------------------------------------------------- statements
\* C16: nothing but Create / Drop changes the set of PRISM objects, and no action ever changes a snapshot
SnapshotFrozen ==
    [][\A n \in 1 .. Len(prisms) : (last'.act # "Drop" /\ n <= Len(prisms')) => prisms'[n].snap = prisms[n].snap]_<<vars, last>>
\* C16: only Edit changes the System
SystemUntouched == [][last'.act # "Edit" => cfg' = cfg]_<<vars, last>>
\* C06 + C16: what a post-processing call returns is determined by the snapshot of ITS object alone - not by the current
\* state of the System, not by other PRISM objects, not by earlier calls, transforms or re-solves
ResultDependsOnSnapshotOnly ==
    last.act = "Calc" => last.result = <<last.fn, prisms[last.n].snap>>
\* an object created from the System now is wired from the System as it is now
SnapshotFaithful == last.act \in {"CreatePRISM", "SysSolve"} => prisms[Len(prisms)].snap = cfg
=============================================================================
