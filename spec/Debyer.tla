------------------------------- MODULE Debyer -------------------------------
(***************************************************************************)
(* Property C18: pyPRISM.trajectory.Debyer - the Debye sum of one frame    *)
(* split over chunks and OpenMP threads.                                   *)
(*                                                                         *)
(* The code (Debyer.pyx):                                                  *)
(*   chunks = _chunk(N1, num_chunks)      rows [start, end) of site indices*)
(*   prange(num_chunks, schedule='static', chunksize=1): iteration t runs  *)
(*     on OpenMP thread (t mod NT), each thread in increasing order of t;  *)
(*     for i in chunk t, for j in (i+1 if self else 0) .. N2-1:            *)
(*         if M1[i] = M2[j]:  thread_omega[t] += f(r_ij)                   *)
(*   (barrier)  omega = SUM_t thread_omega[t]                              *)
(*                                                                         *)
(* Threads interleave at the grain of one accumulation (a load of the row  *)
(* entry, the addition, the store: modelled as two steps so that a shared  *)
(* accumulator WOULD lose updates - deviation "shared_row").  Every pair   *)
(* contributes an integer weight 3^(i*N2+j), so the final sum identifies   *)
(* exactly which pairs were counted and how often.                         *)
(*                                                                         *)
(* Statements: ChunkPartition (the rows partition 0..N-1 for every N and   *)
(* every number of chunks, also when it does not divide N or exceeds N);   *)
(* ResultIsDebyeSum (at termination omega is the sum over exactly the      *)
(* intramolecular pairs, each once, whatever NC, NT and the interleaving); *)
(* RowsArePrivate (no row is written by two threads); OrderIndependent     *)
(* (relabelling the sites permutes nothing in the result); CallReturns-    *)
(* Average (every calculate() call on the object returns the frame average *)
(* of the Debye sum: per-frame reset of the rows, fresh accumulators per   *)
(* call).                                                                  *)
(***************************************************************************)
EXTENDS Integers, FiniteSets, Sequences, TLC, Chunk

CONSTANTS N1, N2,       \* numbers of sites of the two types (self: N2 = N1)
          NC,           \* num_chunks (the "nthreads" argument)
          NT,           \* OpenMP threads actually running
          SelfOmega,    \* BOOLEAN
          Mol1, Mol2,   \* molecule label of each site: sequences of length N1, N2
          Frames,       \* frames of the trajectory (all frames of the model hold the same positions)
          Calls,        \* successive calculate() calls on ONE Debyer object
          Deviation     \* "none" | "shared_row" | "no_frame_reset" | "stale_accumulator"

Sites1 == 0 .. N1 - 1
Sites2 == 0 .. N2 - 1
Tasks  == 0 .. NC - 1
Threads == 0 .. NT - 1

\* ---------------------------------------------------------------- _chunk
\* CeilDiv, Min, ChunkSize, ChunkLo, ChunkHi: spec/Chunk.tla (shared with ChunkInd.tla, where the partition statement below is
\* discharged for every n and c by Apalache)
\* row t of the chunk table: [start, end); rows beyond the data stay [0, 0)
ChunkRow(n, c, t) == <<ChunkLo(n, c, t), ChunkHi(n, c, t)>>
InRow(n, c, t, i) == ChunkRow(n, c, t)[1] <= i /\ i < ChunkRow(n, c, t)[2]
ASSUME ChunkPartition ==
    \A n \in 1 .. 12, c \in 1 .. 14 :
        /\ \A i \in 0 .. n - 1 : Cardinality({t \in 0 .. c - 1 : InRow(n, c, t, i)}) = 1
        /\ \A t \in 0 .. c - 1 : ChunkRow(n, c, t)[2] <= n /\ ChunkRow(n, c, t)[1] <= ChunkRow(n, c, t)[2]

\* ---------------------------------------------------------------- the definition
RECURSIVE Pow3(_)
Pow3(n) == IF n = 0 THEN 1 ELSE 3 * Pow3(n - 1)
Weight(i, j) == Pow3(i * N2 + j)
Counted(i, j) == (SelfOmega => i < j) /\ Mol1[i + 1] = Mol2[j + 1]
RECURSIVE SumSet(_)
SumSet(S) == IF S = {} THEN 0 ELSE LET x == CHOOSE x \in S : TRUE IN Weight(x[1], x[2]) + SumSet(S \ {x})
DebyeSum == SumSet({p \in Sites1 \X Sites2 : Counted(p[1], p[2])})

\* relabelling the sites (another order of the rows of the position array) does not change WHICH pairs of sites are
\* counted (self case: the unordered pairs of distinct sites of one molecule)
PermsOf(n) == {p \in [1 .. n -> 1 .. n] : \A a, b \in 1 .. n : a # b => p[a] # p[b]}
ASSUME OrderIndependent ==
    SelfOmega => \A p \in PermsOf(N1) :
        {{p[i], p[j]} : <<i, j>> \in {q \in (1 .. N1) \X (1 .. N1) : q[1] < q[2] /\ Mol1[p[q[1]]] = Mol1[p[q[2]]]}}
          = {{a, b} : <<a, b>> \in {q \in (1 .. N1) \X (1 .. N1) : q[1] < q[2] /\ Mol1[q[1]] = Mol1[q[2]]}}

\* ---------------------------------------------------------------- the schedule
\* ascending sequence of <<i, j>> for j in a set of integers
RECURSIVE SetToSeqAsc(_, _)
SetToSeqAsc(S, i) == IF S = {} THEN <<>> ELSE LET m == CHOOSE m \in S : \A x \in S : m <= x IN <<<<i, m>>>> \o SetToSeqAsc(S \ {m}, i)
SetToSeq(S, i) == SetToSeqAsc(S, i)
\* the inner loops of one task as the sequence of pairs it visits
RECURSIVE PairSeq(_, _, _)
PairSeq(i, hi, acc) ==
    IF i >= hi THEN acc
    ELSE LET js == IF SelfOmega THEN i + 1 .. N2 - 1 ELSE 0 .. N2 - 1
             row == SetToSeq(js, i)
         IN  PairSeq(i + 1, hi, acc \o row)
Work(t) == LET r == ChunkRow(N1, NC, t) IN PairSeq(r[1], r[2], <<>>)
\* static schedule, chunksize 1: thread th runs the tasks th, th + NT, th + 2 NT, ...
TasksOf(th) == {t \in Tasks : t % NT = th}
NextTask(th, t) == IF \E u \in TasksOf(th) : u > t THEN CHOOSE u \in TasksOf(th) : u > t /\ \A v \in TasksOf(th) : v > t => u <= v ELSE NC

VARIABLES row,        \* thread_omega: task -> accumulated weight
          task,       \* thread -> current task (NC = finished)
          pos,        \* thread -> index into Work(task) of the next pair
          reg,        \* thread -> loaded value of the row entry, or -1 when not between load and store
          writers,    \* task (row) -> set of threads that stored into it
          omega,      \* the reduced result of the current frame, -1 before the reduction
          frame,      \* current frame 1 .. Frames
          call,       \* current call 1 .. Calls
          acc,        \* accumulator over the frames of the current call
          result,     \* what the current call returned (times Frames: the code divides by the frame count), -1 = running
          last
vars == <<row, task, pos, reg, writers, omega, frame, call, acc, result, last>>

RowOf(th) == IF Deviation = "shared_row" THEN 0 ELSE task[th]

Init == /\ row = [t \in Tasks |-> 0]
        /\ task = [th \in Threads |-> IF TasksOf(th) = {} THEN NC ELSE CHOOSE u \in TasksOf(th) : \A v \in TasksOf(th) : u <= v]
        /\ pos = [th \in Threads |-> 1]
        /\ reg = [th \in Threads |-> -1]
        /\ writers = [t \in Tasks |-> {}]
        /\ omega = -1
        /\ frame = 1 /\ call = 1 /\ acc = 0 /\ result = -1
        /\ last = [act |-> "Init"]

Active(th) == task[th] < NC
\* skip pairs of different molecules and finished tasks (no shared state involved)
Advance(th) ==
    /\ Active(th) /\ reg[th] = -1 /\ omega = -1
    /\ LET w == Work(task[th])
       IN  \/ /\ pos[th] > Len(w)
              /\ task' = [task EXCEPT ![th] = NextTask(th, task[th])]
              /\ pos' = [pos EXCEPT ![th] = 1]
           \/ /\ pos[th] <= Len(w) /\ ~Counted(w[pos[th]][1], w[pos[th]][2])
              /\ pos' = [pos EXCEPT ![th] = pos[th] + 1]
              /\ UNCHANGED task
    /\ last' = [act |-> "Advance", th |-> th]
    /\ UNCHANGED <<row, reg, writers, omega, frame, call, acc, result>>
Load(th) ==
    /\ Active(th) /\ reg[th] = -1 /\ omega = -1
    /\ LET w == Work(task[th])
       IN  /\ pos[th] <= Len(w) /\ Counted(w[pos[th]][1], w[pos[th]][2])
           /\ reg' = [reg EXCEPT ![th] = row[RowOf(th)]]
    /\ last' = [act |-> "Load", th |-> th]
    /\ UNCHANGED <<row, task, pos, writers, omega, frame, call, acc, result>>
Store(th) ==
    /\ Active(th) /\ reg[th] # -1
    /\ LET w == Work(task[th])
           p == w[pos[th]]
       IN  /\ row' = [row EXCEPT ![RowOf(th)] = reg[th] + Weight(p[1], p[2])]
           /\ writers' = [writers EXCEPT ![RowOf(th)] = @ \cup {th}]
    /\ reg' = [reg EXCEPT ![th] = -1]
    /\ pos' = [pos EXCEPT ![th] = pos[th] + 1]
    /\ last' = [act |-> "Store", th |-> th]
    /\ UNCHANGED <<task, omega, frame, call, acc, result>>
\* after the implicit barrier of the parallel loop: sequential reduction over the rows
RECURSIVE SumRows(_)
SumRows(t) == IF t < 0 THEN 0 ELSE row[t] + SumRows(t - 1)
Reduce ==
    /\ omega = -1 /\ \A th \in Threads : ~Active(th)
    /\ omega' = SumRows(NC - 1)
    /\ last' = [act |-> "Reduce"]
    /\ UNCHANGED <<row, task, pos, reg, writers, frame, call, acc, result>>
\* calculate(): for every frame reset the rows, run the parallel loop, add the frame's omega to the accumulator
FirstTask(th) == IF TasksOf(th) = {} THEN NC ELSE CHOOSE u \in TasksOf(th) : \A v \in TasksOf(th) : u <= v
FrameDone ==
    /\ omega # -1 /\ result = -1
    /\ acc' = acc + omega
    /\ IF frame < Frames
       THEN /\ frame' = frame + 1 /\ omega' = -1
            /\ row' = IF Deviation = "no_frame_reset" THEN row ELSE [t \in Tasks |-> 0]     \* thread_omega[:,:] = Base2D
            /\ task' = [th \in Threads |-> FirstTask(th)] /\ pos' = [th \in Threads |-> 1]
            /\ UNCHANGED result
       ELSE /\ result' = acc'                       \* returned: acc / Frames
            /\ UNCHANGED <<frame, omega, row, task, pos>>
    /\ last' = [act |-> "FrameDone"]
    /\ UNCHANGED <<reg, writers, call>>
\* the next calculate() on the same object starts from fresh accumulators
NextCall ==
    /\ result # -1 /\ call < Calls
    /\ call' = call + 1 /\ frame' = 1 /\ result' = -1 /\ omega' = -1
    /\ acc' = IF Deviation = "stale_accumulator" THEN acc ELSE 0
    /\ row' = [t \in Tasks |-> 0]
    /\ task' = [th \in Threads |-> FirstTask(th)] /\ pos' = [th \in Threads |-> 1]
    /\ writers' = [t \in Tasks |-> {}]
    /\ last' = [act |-> "NextCall"]
    /\ UNCHANGED reg
Next == (\E th \in Threads : Advance(th) \/ Load(th) \/ Store(th)) \/ Reduce \/ FrameDone \/ NextCall

\* ---------------------------------------------------------------- statements
ResultIsDebyeSum == omega # -1 => omega = DebyeSum
\* every call returns the frame average of the Debye sum, whatever was computed on the object before
CallReturnsAverage == result # -1 => result = Frames * DebyeSum
RowsArePrivate   == \A t \in Tasks : Cardinality(writers[t]) <= 1
\* the barrier: nothing is reduced while a thread is still working
ReduceAfterBarrier == omega # -1 => \A th \in Threads : ~Active(th)
\* the loop always terminates with a result (no thread waits for another one before the barrier): under weak fairness
\* of the scheduler the reduction is eventually performed
FairSpec == Init /\ [][Next]_vars /\ WF_vars(Next)
Terminates == <>(result # -1 /\ call = Calls)
=============================================================================
