---------------------------- MODULE OmegaSource ----------------------------
(***************************************************************************)
(* Property C12: an intramolecular correlation function supplied as an     *)
(* array (omega.FromArray, optionally with its k values) or as a one/two-  *)
(* column text file (omega.FromFile) is returned verbatim when it matches  *)
(* the Fourier grid of the Domain and is rejected otherwise; nothing is    *)
(* ever computed from mismatched data; the caller's array does not leak.   *)
(*                                                                         *)
(* A source is described relative to the Domain it meets:                  *)
(*   origin  array | arrayk | file1 | file2       (k column: arrayk/file2) *)
(*   lenRel  equal | shorter | longer | one       (number of points)       *)
(*   kRel    none | exact | within | beyond | onepoint | rescaled | shifted*)
(*           | nan (one entry of the k column is NaN: it matches nothing)   *)
(*           ("within"/"beyond": both sides of numpy.allclose's boundary)  *)
(* and lives through the stages of real use: constructed -> calculate(k)   *)
(* -> createPRISM (Build) -> first cost evaluation (Evaluate).             *)
(***************************************************************************)
EXTENDS Naturals, TLC

Origins == {"array", "arrayk", "file1", "file2"}
LenRels == {"equal", "shorter", "longer", "one"}
KRels   == {"none", "exact", "within", "beyond", "onepoint", "rescaled", "shifted", "nan"}     \* nan: one k entry is not a number
HasK(o) == o \in {"arrayk", "file2"}
Sources == {s \in [origin : Origins, lenRel : LenRels, kRel : KRels] :
              /\ (HasK(s.origin) <=> s.kRel # "none")
              /\ (s.lenRel # "equal" => s.kRel \in {"none", "exact"})}     \* k relation of the common prefix
DomCfgs == {"dr", "dk", "setters"}      \* how the Domain came to be: Domain(n, dr=), Domain(n, dk=), or via its setters

Matched(s) == s.lenRel = "equal" /\ s.kRel \in {"none", "exact", "within"}
\* array input, or a file with a k column: the number of points and the k values are checked when evaluated
CheckedAtCalculate(s) == s.origin # "file1"

VARIABLES src, dom, rank, stage, mutated, regridded, last
vars == <<src, dom, rank, stage, mutated, regridded, last>>

Init == /\ src \in Sources /\ dom \in DomCfgs /\ rank \in {1, 2}
        /\ stage = "constructed" /\ mutated = FALSE /\ regridded = FALSE
        /\ last = [act |-> "Construct"]

\* the caller changes the array it handed to the constructor
MutateCaller ==
    /\ src.origin \in {"array", "arrayk"} /\ stage \in {"constructed", "calculated"} /\ ~mutated
    /\ mutated' = TRUE
    /\ last' = [act |-> "MutateCaller"]
    /\ UNCHANGED <<src, dom, rank, stage, regridded>>

\* which stages a call of calculate(k) may end in
CalcOutcomeAllowed(s, st) ==
    IF Matched(s) THEN st = "calculated"
    ELSE IF CheckedAtCalculate(s) THEN st = "rejected"
    ELSE st \in {"calculated", "rejected"}       \* one-column file of the wrong length: at the latest at Build / Evaluate
\* after a System was built the user may still evaluate the source object held by the System (stage stays "built" /
\* "evaluated"): building PRISM objects must not have touched the stored values
Calculate ==
    /\ stage \in {"constructed", "calculated", "built", "evaluated"}
    /\ \E st \in {"calculated", "rejected"} :
          /\ CalcOutcomeAllowed(src, st)
          /\ stage' = IF st = "calculated" /\ stage \in {"built", "evaluated"} THEN stage ELSE st
          /\ last' = [act |-> "Calculate", ret |-> IF st = "calculated" THEN "verbatim" ELSE "raises"]
    /\ UNCHANGED <<src, dom, rank, mutated, regridded>>

\* System.createPRISM evaluates every omega on the domain's k and exports the table
\* (parameter sweeps call it again and again on the same System: every PRISM object gets the same verbatim values)
Build ==
    /\ stage \in {"constructed", "calculated", "built", "evaluated"}
    /\ \E st \in {"built", "rejected"} :
          /\ IF Matched(src) THEN st = "built" ELSE IF CheckedAtCalculate(src) THEN st = "rejected" ELSE TRUE
          /\ stage' = st
          /\ last' = [act |-> "Build", ret |-> IF st = "built" THEN "verbatim" ELSE "raises"]
    /\ UNCHANGED <<src, dom, rank, mutated, regridded>>

\* first evaluation of the cost function
Evaluate ==
    /\ stage = "built"
    /\ stage' = IF Matched(src) THEN "evaluated" ELSE "rejected"
    /\ last' = [act |-> "Evaluate", ret |-> IF Matched(src) THEN "finite" ELSE "raises"]
    /\ UNCHANGED <<src, dom, rank, mutated, regridded>>

\* the SAME source object later meets another grid (the user changes the Domain's length or spacing, or reuses
\* the object in another System): every check starts afresh - nothing validated for an earlier grid carries over.
\* Modelled from a source that matched its first grid exactly, to the relations a Domain can realise.
Regrids == {s \in Sources : s.lenRel # "one" /\ s.kRel \in {"none", "exact", "within", "beyond", "rescaled"}}
Regrid(r) ==
    /\ ~regridded /\ stage # "rejected"
    /\ src.lenRel = "equal" /\ src.kRel \in {"none", "exact"}
    /\ r \in Regrids /\ r.origin = src.origin /\ r # src
    /\ src' = r /\ stage' = "constructed" /\ regridded' = TRUE
    /\ last' = [act |-> "Regrid", lenRel |-> r.lenRel, kRel |-> r.kRel]
    /\ UNCHANGED <<dom, rank, mutated>>

\* calculate(k) takes ANY array: the user (or another library) evaluates a source that matches its Domain exactly on wavenumbers
\* of their own - same number of points, but one value off, all shifted, one NaN, or the same first and last value with other
\* values in between (a non-uniform grid).  It is refused, whatever the object was evaluated on before, and nothing about the
\* object changes (the next evaluation on the Domain's grid is verbatim again).
Probes == {"onepoint", "shifted", "nan", "interior"}
Probe(kr) ==
    /\ stage \in {"constructed", "calculated", "built", "evaluated"}
    /\ HasK(src.origin) /\ src.lenRel = "equal" /\ src.kRel = "exact"
    /\ last' = [act |-> "Probe", kRel |-> kr, ret |-> "raises"]
    /\ UNCHANGED <<src, dom, rank, stage, mutated, regridded>>

Next == MutateCaller \/ Calculate \/ Build \/ Evaluate \/ (\E r \in Regrids : Regrid(r)) \/ (\E kr \in Probes : Probe(kr))

\* ------------------------------------------------------------------ statements
\* no correlation function is ever produced from mismatched data
NeverFromMismatch == stage = "evaluated" => Matched(src)
\* array input or a k column: rejected when evaluated; a one-column file: at the latest at Build / Evaluate
RejectStage == (stage \in {"calculated", "built"} /\ ~Matched(src)) => src.origin = "file1"
\* a k array that differs beyond the tolerance is refused however it was produced
ProbeRefused == last.act = "Probe" => last.ret = "raises"
\* matching data is never rejected
MatchedNeverRejected == Matched(src) => stage # "rejected"
\* whenever a call completes on matching data it hands out the stored values verbatim (bit for bit, in order);
\* the harness compares with the data the source was constructed from, also after MutateCaller (NoLeakFromCaller)
VerbatimOnMatch == (last.act \in {"Calculate", "Build"} /\ stage \in {"calculated", "built", "evaluated"} /\ Matched(src)) => last.ret = "verbatim"
=============================================================================
