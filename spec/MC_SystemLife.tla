--------------------------- MODULE MC_SystemLife ---------------------------
EXTENDS SystemLife, Json
MC_Items    == {"rho.A", "rho.B", "d.A", "d.B", "pot.AA", "pot.AB", "pot.BB", "clo.AA", "clo.AB", "clo.BB",
                "om.AA", "om.AB", "om.BB", "domain", "kT", "sig.AB"}
MC_Optional == {"kT", "sig.AB"}
MC_Resets(i) == IF i \in {"d.A", "d.B"} THEN {"sig.AB"} ELSE {}
MC_Needs(i)  == IF i = "sig.AB" THEN {"d.A", "d.B"} ELSE {}
MC_Versions(i) == IF i = "d.B" THEN {1, 2, 3} ELSE {1, 2}
\* lengths in units of 1/160: diameters 1.0, 1.25, 1.1; grid spacings 0.125, 0.0625 (256 resp. 512 points: every length used
\* lies inside the grid); the contact distance override adds 0.125
D160(v)  == CASE v = 1 -> 160 [] v = 2 -> 200 [] v = 3 -> 176
Dr160(v) == IF v = 1 THEN 20 ELSE 10
MC_Warnings(c) ==
    LET dr  == Dr160(c["domain"])
        dA  == D160(c["d.A"])
        dB  == D160(c["d.B"])
        sAB == ((dA + dB) \div 2) + (IF c["sig.AB"] = 2 THEN 20 ELSE 0)
        Off(x) == x % dr # 0
    IN  (IF Off(dA) THEN {"d.A", "s.AA"} ELSE {}) \cup (IF Off(dB) THEN {"d.B", "s.BB"} ELSE {})
        \cup (IF Off(sAB) THEN {"s.AB"} ELSE {})
\* completeness machine: only unset items are assigned
FillNext == \/ \E i \in Items : cfg[i] = 0 /\ Edit(i, 1)
            \/ Edit("sig.AB", 2)
            \/ CopySystem
            \/ \E s \in BOOLEAN : Create(s)
SweepQuick    == {"rho.A", "d.B", "kT", "pot.AB", "domain", "sig.AB"}
SweepThorough == {"rho.A", "d.B", "kT", "pot.AB", "clo.AA", "om.AA", "om.AB", "domain", "sig.AB"}
St      == [cfg |-> cfg,  prisms |-> prisms]
StPrime == [cfg |-> cfg', prisms |-> prisms']
MCInit == Init /\ PrintT(<<"INIT", ToJson(St)>>)
View   == vars
Edge   == PrintT(<<"EDGE", ToJson([from |-> St, to |-> StPrime, l |-> last'])>>)
NoEdge == TRUE
=============================================================================
