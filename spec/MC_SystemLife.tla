--------------------------- MODULE MC_SystemLife ---------------------------
EXTENDS SystemLife, Json
MC_Items    == {"rho.A", "rho.B", "d.A", "d.B", "pot.AA", "pot.AB", "pot.BB", "clo.AA", "clo.AB", "clo.BB",
                "om.AA", "om.AB", "om.BB", "domain", "kT"}
MC_Optional == {"kT"}
\* completeness machine: only unset items are assigned
FillNext == \/ \E i \in Items : cfg[i] = 0 /\ Edit(i, 1)
            \/ \E s \in BOOLEAN : Create(s)
SweepQuick    == {"rho.A", "d.B", "kT", "pot.AB", "domain"}
SweepThorough == {"rho.A", "d.B", "kT", "pot.AB", "clo.AA", "om.AA", "om.AB", "domain"}
St      == [cfg |-> cfg,  prisms |-> prisms]
StPrime == [cfg |-> cfg', prisms |-> prisms']
MCInit == Init /\ PrintT(<<"INIT", ToJson(St)>>)
View   == vars
Edge   == PrintT(<<"EDGE", ToJson([from |-> St, to |-> StPrime, l |-> last'])>>)
NoEdge == TRUE
=============================================================================
