--------------------------- MODULE MC_SystemLife ---------------------------
EXTENDS SystemLife, Json
MC_Items    == {"rho.A", "rho.B", "d.A", "d.B", "pot.AA", "pot.AB", "pot.BB", "clo.AA", "clo.AB", "clo.BB",
                "om.AA", "om.AB", "om.BB", "domain", "kT", "sig.AB"}
MC_Optional == {"kT", "sig.AB"}
MC_Resets(i) == IF i \in {"d.A", "d.B"} THEN {"sig.AB"} ELSE {}
MC_Needs(i)  == IF i = "sig.AB" THEN {"d.A", "d.B"} ELSE {}
\* completeness machine: only unset items are assigned
FillNext == \/ \E i \in Items : cfg[i] = 0 /\ Edit(i, 1)
            \/ Edit("sig.AB", 2)
            \/ \E s \in BOOLEAN : Create(s)
SweepQuick    == {"rho.A", "d.B", "kT", "pot.AB", "domain", "sig.AB"}
SweepThorough == {"rho.A", "d.B", "kT", "pot.AB", "clo.AA", "om.AA", "om.AB", "domain", "sig.AB"}
St      == [cfg |-> cfg,  prisms |-> prisms]
StPrime == [cfg |-> cfg', prisms |-> prisms']
MCInit == Init /\ PrintT(<<"INIT", ToJson(St)>>)
View   == vars
Edge   == PrintT(<<"EDGE", ToJson([from |-> St, to |-> StPrime, l |-> last'])>>)
NoEdge == TRUE
=============================================================================
