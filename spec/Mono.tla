-------------------------------- MODULE Mono --------------------------------
(***************************************************************************)
(* Exact arithmetic for TLC: normalised rationals <<num, den>> (den > 0)   *)
(* and monomials  q * pi^e  written <<num, den, e>>.  Everything the       *)
(* specification says about spacings and transform prefactors is stated    *)
(* with these, so that no floating point enters a TLC-checked statement.   *)
(***************************************************************************)
EXTENDS Integers, TLC

Abs(x) == IF x < 0 THEN -x ELSE x

RECURSIVE GCD(_, _)
GCD(a, b) == IF b = 0 THEN Abs(a) ELSE GCD(b, a % b)

\* ---------------------------------------------------------------- rationals
RNorm(n, d) == LET s == IF d < 0 THEN -1 ELSE 1
                   g == GCD(Abs(n), Abs(d))
               IN  IF n = 0 THEN <<0, 1>> ELSE <<(s * n) \div g, (s * d) \div g>>
RInt(n)      == <<n, 1>>
\* operands are cross-reduced before multiplying so that intermediates stay inside TLC's 32-bit
\* integers whenever the normalised result does (an overflow is a TLC error, never a silent wrap)
RAdd(a, b)   == LET g == GCD(a[2], b[2])
                IN  RNorm(a[1] * (b[2] \div g) + b[1] * (a[2] \div g), (a[2] \div g) * b[2])
RSub(a, b)   == LET g == GCD(a[2], b[2])
                IN  RNorm(a[1] * (b[2] \div g) - b[1] * (a[2] \div g), (a[2] \div g) * b[2])
RMul(a, b)   == LET g1 == GCD(Abs(a[1]), b[2])
                    g2 == GCD(Abs(b[1]), a[2])
                    h1 == IF g1 = 0 THEN 1 ELSE g1
                    h2 == IF g2 = 0 THEN 1 ELSE g2
                IN  RNorm((a[1] \div h1) * (b[1] \div h2), (a[2] \div h2) * (b[2] \div h1))
RDiv(a, b)   == RMul(a, IF b[1] < 0 THEN <<-b[2], -b[1]>> ELSE <<b[2], b[1]>>)
RNeg(a)      == <<-a[1], a[2]>>
RLess(a, b)  == a[1] * b[2] < b[1] * a[2]
RLeq(a, b)   == a[1] * b[2] <= b[1] * a[2]
RZero        == <<0, 1>>
ROne         == <<1, 1>>

RECURSIVE RPow(_, _)
RPow(a, n) == IF n = 0 THEN ROne ELSE RMul(a, RPow(a, n - 1))

\* ---------------------------------------------------------------- q * pi^e
MNorm(n, d, e) == LET r == RNorm(n, d) IN <<r[1], r[2], e>>
MRat(q)       == <<q[1], q[2], 0>>
MInt(n)       == <<n, 1, 0>>
MPi           == <<1, 1, 1>>
MMul(a, b)    == MNorm(a[1] * b[1], a[2] * b[2], a[3] + b[3])
MDiv(a, b)    == MNorm(a[1] * b[2], a[2] * b[1], a[3] - b[3])
MOne          == <<1, 1, 0>>

ASSUME /\ RAdd(<<1, 2>>, <<1, 3>>) = <<5, 6>>
       /\ RMul(<<2, 3>>, <<3, 4>>) = <<1, 2>>
       /\ RDiv(<<1, 2>>, <<-1, 4>>) = <<-2, 1>>
       /\ RSub(<<1, 2>>, <<1, 2>>) = RZero
       /\ RPow(<<1, 2>>, 3) = <<1, 8>>
       /\ MDiv(MPi, MMul(<<1, 10, 0>>, MInt(4))) = <<5, 2, 1>>
=============================================================================
