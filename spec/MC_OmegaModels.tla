--------------------------- MODULE MC_OmegaModels ---------------------------
EXTENDS OmegaModels, Json
St      == [obj |-> obj]
StPrime == [obj |-> obj']
MCInit == Init /\ PrintT(<<"INIT", ToJson(St)>>)
ASSUME PrintT(<<"INFO", ToJson([terms |-> ModelTerms])>>)
\* exact reference values for the validation of the term evaluator and of the real classes at exact points
ASSUME \A N \in Ns, E \in Ws : PrintT(<<"EXACT", ToJson([N |-> N, E |-> E, value |-> PairSum(N, Geometric(N, E))])>>)
ASSUME \A N \in 2 .. 6, G \in {<<1, 2>>, <<2, 3>>} : PrintT(<<"RING", ToJson([N |-> N, G |-> G, value |-> RingSumDef(N, G)])>>)
View   == obj
Edge   == PrintT(<<"EDGE", ToJson([from |-> St, to |-> StPrime, l |-> last'])>>)
NoEdge == TRUE
=============================================================================
