---------------------------- MODULE Trace_Tables ----------------------------
(***************************************************************************)
(* Validation of PairTable / ValueTable events recorded from real pyPRISM  *)
(* executions against spec/Tables.tla.  One TLC run validates all tables   *)
(* with the same (N, Sym); the log is the concatenation of the per-object  *)
(* sub-traces ("pt.new"/"vt.new" starts a new object = the spec's Init).   *)
(*                                                                         *)
(* Logged per event (harness/observer.py): the key lists as type indices,  *)
(* for the assigned value its identity token, whether it is mutable and a  *)
(* content fingerprint (0 None, 1 opaque, >= 2 number), and after the call *)
(* the token and fingerprint of every slot.  An event is accepted iff the  *)
(* specification's own action, with the logged arguments bound, produces   *)
(*  - the logged contents (fingerprints) in every slot, and                *)
(*  - the logged alias partition over the slots holding MUTABLE objects    *)
(*    plus the caller's object (deepcopy of an atom is the atom itself, so *)
(*    identity says nothing for immutable payloads).                       *)
(* TLC evaluates Symmetric, Isolation, RefinesMap, AliasCoherent in every  *)
(* state reached.                                                          *)
(***************************************************************************)
EXTENDS Tables, Json, IOUtils

Log == ndJsonDeserialize(IOEnv.TRACE_FILE)

VARIABLE l,
         mutable       \* [1..NS -> BOOLEAN] does the slot hold a mutable object (logged)

Clause(name, c) == c \/ (PrintT(<<"REJECT", ToJson([l |-> l, clause |-> name, seq |-> Log[l].seq])>>) /\ FALSE)
IsEvent(e) == l <= Len(Log) /\ Log[l].ev = e /\ l' = l + 1

Flat(m) == [s \in TSlots |-> m[RowOf(s)][ColOf(s)]]
Masked(f, mask) == Canon([s \in 1 .. NS |-> IF mask[s] THEN f[s] ELSE 0])

\* the logged post-state: tokens of the table slots and of the value passed
LoggedIds(e)  == [s \in 1 .. NS |-> IF s = Caller THEN e.arg.tok ELSE Flat(e.tok)[s]]
LoggedFp(e)   == Flat(e.fp)
Content(c)    == IF c = None THEN 0 ELSE c[1]

\* which slots hold mutable objects after the call (logged per slot)
NewMutable(e, written) == [s \in 1 .. NS |->
        IF s = Caller THEN e.arg.mut = 1 ELSE Flat(e.mut)[s] = 1]

PostMatches(e, written) ==
    /\ mutable' = NewMutable(e, written)
    /\ Clause("Contents", \A s \in TSlots : Content(val'[s]) = LoggedFp(e)[s])
    /\ Clause("Isolation", Masked(id', mutable') = Masked(LoggedIds(e), mutable'))

WrittenBySet(K1, K2) ==
    {Slot(K1[a], K2[b]) : a \in 1 .. Len(K1), b \in 1 .. Len(K2)} \cup
    (IF Sym THEN {Slot(K2[b], K1[a]) : a \in 1 .. Len(K1), b \in 1 .. Len(K2)} ELSE {})

Ok(e) == e.exc = ""

TrPTNew ==
    /\ IsEvent("pt.new")
    /\ id' = [s \in 1 .. NS |-> 0] /\ val' = [s \in 1 .. NS |-> None]
    /\ ref' = [k \in RefKeys |-> None] /\ UNCHANGED vt
    /\ mutable' = [s \in 1 .. NS |-> FALSE]
    /\ last' = [act |-> "New"]

TrPTSet ==
    /\ IsEvent("pt.set")
    /\ LET e == Log[l]
       IN  IF Ok(e)
           THEN /\ Clause("KeysKnown", \A n \in 1 .. Len(e.k1) : e.k1[n] \in Idx)
                /\ Clause("KeysKnown", \A n \in 1 .. Len(e.k2) : e.k2[n] \in Idx)
                /\ PTSet(e.k1, e.k2, e.arg.fp)
                /\ PostMatches(e, WrittenBySet(e.k1, e.k2))
           ELSE UNCHANGED <<vars, last, mutable>>

UnsetSlots == {s \in TSlots : val[s] = None /\ (RowOf(s) <= ColOf(s) \/ (Sym /\ val[Slot(ColOf(s), RowOf(s))] = None))}

TrPTSetUnset ==
    /\ IsEvent("pt.setUnset")
    /\ LET e == Log[l]
       IN  IF Ok(e)
           THEN /\ PTSetUnset(e.arg.fp)
                /\ PostMatches(e, UnsetSlots)
           ELSE UNCHANGED <<vars, last, mutable>>

\* apply(): the function is the user's; the logged table is adopted and must satisfy the
\* invariants (Symmetric, Isolation on mutable payloads are re-checked below by TLC)
TrPTApply ==
    /\ IsEvent("pt.apply")
    /\ LET e == Log[l]
       IN  IF Ok(e) /\ e.inplace = 1
           THEN /\ val' = [s \in 1 .. NS |-> IF s = Caller THEN None
                                             ELSE IF Flat(e.fp)[s] = 0 THEN None ELSE <<Flat(e.fp)[s], 0>>]
                /\ id' = Canon([s \in 1 .. NS |-> IF s = Caller THEN 0 ELSE Flat(e.tok)[s]])
                /\ ref' = [k \in RefKeys |-> val'[Slot(k[1], k[2])]]
                /\ mutable' = [s \in 1 .. NS |-> IF s = Caller THEN FALSE ELSE Flat(e.mut)[s] = 1]
                /\ UNCHANGED vt
                /\ last' = [act |-> "PTApplyIn"]
           ELSE /\ Clause("ApplyOutLeavesOriginal",
                          ~Ok(e) \/ (\A s \in TSlots : Content(val[s]) = LoggedFp(e)[s]))
                /\ UNCHANGED <<vars, last, mutable>>

TrPTCheck ==
    /\ IsEvent("pt.check")
    /\ LET e == Log[l]
       IN  /\ PTCheck
           /\ Clause("CheckRaisesIffUnset", last'.raises <=> (e.exc = "ValueError"))
           /\ Clause("CheckOnlyValueError", e.exc \in {"", "ValueError"})
           /\ Clause("CheckReadOnly", \A s \in TSlots : Content(val[s]) = LoggedFp(e)[s])
           /\ UNCHANGED mutable

TrPTExport ==
    /\ IsEvent("pt.export")
    /\ LET e == Log[l]
       IN  /\ Clause("ExportRaisesIffUnset", (~Complete) => e.exc = "ValueError")
           /\ UNCHANGED <<vars, last, mutable>>

\* ---------------------------------------------------------------- ValueTable
TrVTNew ==
    /\ IsEvent("vt.new")
    /\ vt' = [i \in Idx |-> 0]
    /\ UNCHANGED <<id, val, ref, mutable>>
    /\ last' = [act |-> "New"]

TrVTSet ==
    /\ IsEvent("vt.set")
    /\ LET e == Log[l]
       IN  IF Ok(e)
           THEN /\ Clause("KeysKnown", \A n \in 1 .. Len(e.k) : e.k[n] \in Idx)
                /\ VTSet(e.k, e.arg.fp)
                /\ Clause("Contents", \A i \in Idx : vt'[i] = e.fp[i])
                /\ UNCHANGED mutable
           ELSE UNCHANGED <<vars, last, mutable>>

TrVTSetUnset ==
    /\ IsEvent("vt.setUnset")
    /\ LET e == Log[l]
       IN  /\ VTSetUnset(e.arg.fp)
           /\ Clause("Contents", \A i \in Idx : vt'[i] = e.fp[i])
           /\ UNCHANGED mutable

TrVTCheck ==
    /\ IsEvent("vt.check")
    /\ LET e == Log[l]
       IN  /\ VTCheck
           /\ Clause("CheckRaisesIffUnset", last'.raises <=> (e.exc = "ValueError"))
           /\ UNCHANGED mutable

TraceInit == Init /\ l = 1 /\ mutable = [s \in 1 .. NS |-> FALSE]
TraceNext == TrPTNew \/ TrPTSet \/ TrPTSetUnset \/ TrPTApply \/ TrPTCheck \/ TrPTExport
             \/ TrVTNew \/ TrVTSet \/ TrVTSetUnset \/ TrVTCheck
TraceView == <<vars, l, mutable>>

\* Isolation restricted to slots known to hold mutable objects
IsolationMutable ==
    /\ \A s, t \in TSlots : (mutable[s] /\ mutable[t] /\ id[s] # 0 /\ id[s] = id[t]) =>
                               Key(RowOf(s), ColOf(s)) = Key(RowOf(t), ColOf(t))

TraceAccepted ==
    LET d == TLCGet("stats").diameter - 1
    IN  /\ PrintT(<<"TRACE", ToJson([accepted |-> d, total |-> Len(Log)])>>)
        /\ d = Len(Log)
=============================================================================
