---------------------------- MODULE ClosureDefs ----------------------------
(***************************************************************************)
(* Pair potentials and atomic closures of pyPRISM as DEFINITIONS, and the  *)
(* objects that carry them as small state machines (properties C03, C09,   *)
(* C10).                                                                   *)
(*                                                                         *)
(* Grid: points i = 1 .. L with r_i = i*dr.  All distances of the          *)
(* specification are integers in HALF units of dr, so the grid point i     *)
(* sits at 2i, a contact distance "sigma2" is on the grid iff it is even,  *)
(* and the region of a grid point relative to a core is decided in         *)
(* integer arithmetic:                                                     *)
(*      inside   2i < sigma2     contact  2i = sigma2    outside 2i > s2   *)
(* The statement of C10 is that CONTACT IS CORE for every pair alike.      *)
(*                                                                         *)
(* Values are terms (module Term) over the variables r, sigma, rcut, eps,  *)
(* alpha, high (potentials; energy units) and gamma, u (closures; u is the *)
(* potential divided by kT).  TLC decides, per object state and grid       *)
(* point, WHICH term applies, reduces it exactly where it is rational      *)
(* (distances in half units: r = 2i, sigma = sigma2), and checks the       *)
(* property statements on the definitions themselves.  The harness binds   *)
(* the variables to the real arrays and compares the real classes point by *)
(* point.                                                                  *)
(***************************************************************************)
EXTENDS Term, FiniteSets

CONSTANTS L           \* number of grid points

Pts == 1 .. L
Unset == 0

Region(i, s2) == IF 2 * i < s2 THEN "inside" ELSE IF 2 * i = s2 THEN "contact" ELSE "outside"
InCore(i, s2) == 2 * i <= s2

\* ------------------------------------------------------------------ potentials
PotKinds  == {"HardSphere", "Exponential", "HardCoreLennardJones", "LennardJones", "WeeksChandlerAndersen"}
CoreKinds == {"HardSphere", "Exponential", "HardCoreLennardJones"}

r_     == TV("r")
sigma_ == TV("sigma")
rcut_  == TV("rcut")
eps_   == TV("eps")
alpha_ == TV("alpha")
high_  == TV("high")

SoverR(rr)  == TDiv(sigma_, rr)
LJFull(rr)  == TMul(TMul(TI(4), eps_), TSub(TPow(SoverR(rr), 12), TPow(SoverR(rr), 6)))
HCLJTail    == TMul(eps_, TSub(TPow(SoverR(r_), 12), TMul(TI(2), TPow(SoverR(r_), 6))))
ExpTail     == TNeg(TMul(eps_, TExp(TNeg(TDiv(TSub(r_, sigma_), alpha_)))))

\* the terms of every branch of every potential
PotTerms ==
    [HardSphere            |-> [core |-> high_, tail |-> TI(0)],
     Exponential           |-> [core |-> high_, tail |-> ExpTail],
     HardCoreLennardJones  |-> [core |-> high_, tail |-> HCLJTail],
     LennardJones          |-> [full |-> LJFull(r_), shifted |-> TSub(LJFull(r_), LJFull(rcut_)), zero |-> TI(0)],
     WeeksChandlerAndersen |-> [repulsive |-> TAdd(LJFull(r_), eps_), zero |-> TI(0)]]

\* a potential object: kind, contact distance (Unset = None), LJ cut-off and shift flag
PotBranch(p, i) ==
    CASE p.kind \in CoreKinds -> IF InCore(i, p.sigma2) THEN "core" ELSE "tail"
      [] p.kind = "LennardJones" ->
            IF p.rcut2 = 0 THEN "full"
            ELSE IF 2 * i > p.rcut2 THEN "zero"
            ELSE IF p.shift THEN "shifted"
            ELSE IF 2 * i = p.rcut2 THEN "full_atcut"     \* value at r = rcut exactly: u(rcut) or 0, not fixed by the statement
            ELSE "full"
      [] p.kind = "WeeksChandlerAndersen" ->                \* r <= 2^(1/6) sigma  <=>  r^6 <= 2 sigma^6 (never equal: irrational)
            IF (2 * i) * (2 * i) * (2 * i) * (2 * i) * (2 * i) * (2 * i)
                 <= 2 * p.sigma2 * p.sigma2 * p.sigma2 * p.sigma2 * p.sigma2 * p.sigma2
            THEN "repulsive" ELSE "zero"

BranchTerm(p, b) == IF b = "full_atcut" THEN PotTerms[p.kind]["full"] ELSE PotTerms[p.kind][b]

\* exact instance: half units, eps = 3/2, alpha = 2, high = 10^6
ExactEnv(p, i) == [r |-> <<2 * i, 1>>, sigma |-> <<p.sigma2, 1>>, rcut |-> <<p.rcut2, 1>>,
                   eps |-> <<3, 2>>, alpha |-> <<2, 1>>, high |-> <<1000000, 1>>]
PotExact(p, i) == REval(BranchTerm(p, PotBranch(p, i)), ExactEnv(p, i))

\* C04: every finite branch is linear in the energy parameter, so u(s eps)/(s kT) = u(eps)/kT
ASSUME EnergyLinear ==
    \A s \in {<<1, 2>>, <<2, 1>>, <<7, 1>>} :
        \A kind \in {"HardCoreLennardJones", "LennardJones", "WeeksChandlerAndersen"} :
            \A b \in DOMAIN PotTerms[kind] :
                b \notin {"core"} =>
                    LET env(e) == [r |-> <<4, 1>>, sigma |-> <<3, 1>>, rcut |-> <<6, 1>>, eps |-> e, alpha |-> <<2, 1>>]
                        u1 == REval(PotTerms[kind][b], env(<<3, 2>>))
                        us == REval(PotTerms[kind][b], env(RMul(s, <<3, 2>>)))
                    IN  (IsDef(u1) /\ IsDef(us)) => RDiv(us, RMul(s, <<5, 4>>)) = RDiv(u1, <<5, 4>>)

\* ------------------------------------------------------------------ closures
ClosKinds == {"PercusYevick", "PY", "HyperNettedChain", "HNC", "MeanSphericalApproximation", "MSA",
              "MartynovSarkisov", "MS"}
Canon(k) == CASE k \in {"PercusYevick", "PY"} -> "PY"
              [] k \in {"HyperNettedChain", "HNC"} -> "HNC"
              [] k \in {"MeanSphericalApproximation", "MSA"} -> "MSA"
              [] k \in {"MartynovSarkisov", "MS"} -> "MS"
g_ == TV("gamma")
u_ == TV("u")

ClosRel ==
    [PY  |-> TMul(TSub(TExp(TNeg(u_)), TI(1)), TAdd(TI(1), g_)),
     HNC |-> TSub(TSub(TExp(TSub(g_, u_)), TI(1)), g_),
     MSA |-> TNeg(u_),
     \* Martynov-Sarkisov: g = exp(sqrt(1 + 2(gamma - u)) - 1)  (Yethiraj-Schweizer change of variables) ...
     MS  |-> TSub(TSub(TExp(TSub(TSqrt(TAdd(TI(1), TMul(TI(2), TSub(g_, u_)))), TI(1))), TI(1)), g_),
     \* ... or the original form g = exp(-u + sqrt(1 + 2 gamma) - 1); a faithful implementation of either is accepted
     MSalt |-> TSub(TSub(TExp(TSub(TSub(TSqrt(TAdd(TI(1), TMul(TI(2), g_))), TI(1)), u_)), TI(1)), g_)]
ClosCore == TSub(TI(-1), g_)

ClosBranch(c, i) == IF c.flag /\ InCore(i, c.sigma2) THEN "core" ELSE "rel"

\* ------------------------------------------------------------------ statements about the closure definitions
Zero2 == [gamma |-> RZero, u |-> RZero]
AllRel == {"PY", "HNC", "MSA", "MS", "MSalt"}
\* C09: correlations can decay to zero: c(0, 0) = 0 ...
VanishAtZero == \A k \in AllRel : REval(ClosRel[k], Zero2) = RZero
\* ... and c = -u + second order: dc/du = -1, dc/dgamma = 0 at the origin
WeakCoupling == \A k \in AllRel : /\ REval(Diff(ClosRel[k], "u"), Zero2) = <<-1, 1>>
                                  /\ REval(Diff(ClosRel[k], "gamma"), Zero2) = RZero
GammaSamples == {<<-2, 1>>, RZero, <<1, 2>>, <<3, 1>>}
\* C03/C09: inside the core of a flagged closure c + gamma = -1 whatever the potential
CoreBranchValue == \A g \in GammaSamples : REval(TAdd(ClosCore, g_), [gamma |-> g]) = <<-1, 1>>
\* C03: PY and HNC give -1 - gamma on an overlap value WITHOUT the flag, because exp(-high/kT) underflows to 0
\*      (assumption made explicit: high/kT >= 746 + gamma); MSA and MS do not (documented)
UnflaggedOnOverlap ==
    \A g \in GammaSamples : \A kT \in {1, 1000} :
        LET env == [gamma |-> g, u |-> <<1000000 \div kT, 1>>]
        IN  /\ REval(ClosRel["PY"], env)  = RSub(<<-1, 1>>, g)
            /\ REval(ClosRel["HNC"], env) = RSub(<<-1, 1>>, g)
            /\ REval(ClosRel["MSA"], env) # RSub(<<-1, 1>>, g)
HardCorePair(ck, flag, pk) == flag \/ (pk \in CoreKinds /\ Canon(ck) \in {"PY", "HNC"})
\* C03: the composition potential -> closure at a core point, for every hard-core pair
HardCoreValue ==
    \A ck \in {"PY", "HNC", "MSA", "MS"}, flag \in BOOLEAN, pk \in CoreKinds, g \in GammaSamples :
        HardCorePair(ck, flag, pk) =>
            LET c == IF flag THEN ClosCore
                     ELSE Subst(ClosRel[ck], "u", TDiv(PotTerms[pk]["core"], TV("kT")))
            IN  REval(c, [gamma |-> g, high |-> <<1000000, 1>>, kT |-> <<2, 1>>]) = RSub(<<-1, 1>>, g)
=============================================================================
