------------------------------ MODULE DensDiam ------------------------------
(***************************************************************************)
(* pyPRISM.core.Density and pyPRISM.core.Diameter (property C15).          *)
(*                                                                         *)
(* The stored derived tables (pair, site, total; volume, sigma) are state  *)
(* of their own - they are written by the setter's loops, exactly as in    *)
(* the code - so that "nothing derived is stale" is a statement TLC can    *)
(* check: the invariants compare the STORED entries with the definition    *)
(* evaluated on the current densities/diameters.                           *)
(* Values are small integers (exact in float64); 0 stands for "unset".     *)
(* sigma is stored doubled (d1 + d2) to stay in the integers.              *)
(***************************************************************************)
EXTENDS Naturals, Sequences, FiniteSets, TLC

CONSTANTS N, Vals

Idx == 1 .. N

VARIABLES rho,     \* [Idx -> 0 | value]            Density.density
          pair,    \* [Idx -> [Idx -> Nat]]         Density.pair  (MatrixArray, zeros initially)
          site,    \* [Idx -> [Idx -> Nat]]         Density.site
          total,   \* Nat                           Density.total
          diam,    \* [Idx -> 0 | value]            Diameter.diameter
          vol,     \* [Idx -> 0 | value]            diameter the stored volume was computed from
          sig2,    \* [Idx -> [Idx -> Nat]]         2 * Diameter.sigma, 0 = None
          last

dvars == <<rho, pair, site, total>>
mvars == <<diam, vol, sig2>>
vars  == <<rho, pair, site, total, diam, vol, sig2>>

Zero == [i \in Idx |-> [j \in Idx |-> 0]]

Init == /\ rho = [i \in Idx |-> 0] /\ pair = Zero /\ site = Zero /\ total = 0
        /\ diam = [i \in Idx |-> 0] /\ vol = [i \in Idx |-> 0] /\ sig2 = Zero
        /\ last = [act |-> "Init"]

\* MatrixArray.__setitem__ : symmetric write
MSet(m, i, j, v) == [m EXCEPT ![i][j] = v, ![j][i] = v]

(***************************************************************************)
(* Density.__setitem__(types1, value): for t1 in listify(types1): store,   *)
(* reset total, then for every t2 of the type list that is already set     *)
(* accumulate total and refresh pair/site[t1, t2].                         *)
(***************************************************************************)
RECURSIVE DInner(_, _, _, _)
DInner(st, t1, v, t2) ==
    IF t2 > N THEN st
    ELSE IF st.rho[t2] = 0 THEN DInner(st, t1, v, t2 + 1)
    ELSE DInner([st EXCEPT !.total = @ + st.rho[t2],
                           !.pair  = MSet(@, t1, t2, v * st.rho[t2]),
                           !.site  = MSet(@, t1, t2, IF t1 = t2 THEN v ELSE v + st.rho[t2])],
                t1, v, t2 + 1)

RECURSIVE DOuter(_, _, _)
DOuter(st, K, v) ==
    IF K = <<>> THEN st
    ELSE LET st1 == [st EXCEPT !.rho[Head(K)] = v, !.total = 0]
         IN  DOuter(DInner(st1, Head(K), v, 1), Tail(K), v)

SetDensity(K, v) ==
    LET st == DOuter([rho |-> rho, pair |-> pair, site |-> site, total |-> total], K, v)
    IN  /\ rho' = st.rho /\ pair' = st.pair /\ site' = st.site /\ total' = st.total
        /\ UNCHANGED mvars
        /\ last' = [act |-> "SetDensity", k |-> K, v |-> v]

DensityCheck ==
    /\ UNCHANGED vars
    /\ last' = [act |-> "DensityCheck", raises |-> \E i \in Idx : rho[i] = 0]

(***************************************************************************)
(* Diameter.__setitem__                                                    *)
(***************************************************************************)
RECURSIVE MInner(_, _, _, _)
MInner(st, t1, v, t2) ==
    IF t2 > N THEN st
    ELSE IF st.diam[t2] = 0 THEN MInner(st, t1, v, t2 + 1)
    ELSE MInner([st EXCEPT !.sig2 = MSet(@, t1, t2, v + st.diam[t2])], t1, v, t2 + 1)

RECURSIVE MOuter(_, _, _)
MOuter(st, K, v) ==
    IF K = <<>> THEN st
    ELSE LET st1 == [st EXCEPT !.diam[Head(K)] = v, !.vol[Head(K)] = v]
         IN  MOuter(MInner(st1, Head(K), v, 1), Tail(K), v)

SetDiameter(K, v) ==
    LET st == MOuter([diam |-> diam, vol |-> vol, sig2 |-> sig2], K, v)
    IN  /\ diam' = st.diam /\ vol' = st.vol /\ sig2' = st.sig2
        /\ UNCHANGED dvars
        /\ last' = [act |-> "SetDiameter", k |-> K, v |-> v]

DiameterCheck ==
    /\ UNCHANGED vars
    /\ last' = [act |-> "DiameterCheck", raises |-> \E i \in Idx : diam[i] = 0]

\* key lists: every sequence of types of length 1 .. N - any order, and a type may be listed more than once
\* (d[['A','B','A']] = x is a valid statement: the repeated type is simply assigned twice)
SubSeqs == UNION {[1 .. n -> Idx] : n \in 1 .. N}

DensNext == (\E K \in SubSeqs, v \in Vals : SetDensity(K, v)) \/ DensityCheck
DiamNext == (\E K \in SubSeqs, v \in Vals : SetDiameter(K, v)) \/ DiameterCheck
Next == DensNext \/ DiamNext

(***************************************************************************)
(* The property: definitions evaluated on the CURRENT primary values.      *)
(***************************************************************************)
Assigned(f, i, j) == f[i] # 0 /\ f[j] # 0

RECURSIVE SumTo(_, _)
SumTo(f, n) == IF n = 0 THEN 0 ELSE f[n] + SumTo(f, n - 1)

PairOK  == \A i, j \in Idx : Assigned(rho, i, j) => pair[i][j] = rho[i] * rho[j]
SiteOK  == \A i, j \in Idx : Assigned(rho, i, j) =>
                site[i][j] = IF i = j THEN rho[i] ELSE rho[i] + rho[j]
TotalOK == total = SumTo(rho, N)
SigmaOK == \A i, j \in Idx : Assigned(diam, i, j) => sig2[i][j] = diam[i] + diam[j]
VolumeOK == \A i \in Idx : vol[i] = diam[i]
SymmetricOK == \A i, j \in Idx : pair[i][j] = pair[j][i] /\ site[i][j] = site[j][i] /\ sig2[i][j] = sig2[j][i]
=============================================================================
