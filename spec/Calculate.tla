------------------------------ MODULE Calculate ------------------------------
(***************************************************************************)
(* The seven pyPRISM.calculate functions as DEFINITIONS in exact rational  *)
(* arithmetic on hand-populated PRISM objects (property C05).              *)
(*                                                                         *)
(* An instance: Rk site types, Lk wavenumbers k_l = l*dk, symmetric        *)
(* integer/rational arrays Hk, Ck, Wk (totalCorr, directCorr and the       *)
(* site-density-scaled omega in Fourier space), Hr (totalCorr in real      *)
(* space, for pair_correlation / pmf), densities, diameters in {1, 4} (so  *)
(* that the square root of the site-volume ratio is rational), kT.         *)
(* Instances are generated from a seed by modular arithmetic; none of them *)
(* is self-consistent, so a function that silently substitutes one array   *)
(* for another (e.g. S from C and omega instead of from H) is exposed.     *)
(*                                                                         *)
(* TLC evaluates every definition and checks, per instance, statements     *)
(* that relate them (SymmetricOutputs, SpinodalIsBlockDeterminant,         *)
(* ExtrapolationIsQuadratic).  The harness populates a real PRISM object   *)
(* with the same numbers and compares every return value.                  *)
(***************************************************************************)
EXTENDS Mono, Sequences, FiniteSets

CONSTANTS Rk,       \* rank
          Seeds     \* set of instance seeds

Lk == 4
Ti == 1 .. Rk
Li == 1 .. Lk

VARIABLES inst,     \* the instance (record)
          last

vars == <<inst>>

\* ---------------------------------------------------------------- instance generator
Mn(a, b) == IF a < b THEN a ELSE b
Mx(a, b) == IF a < b THEN b ELSE a
Gen(seed, tag, l, i, j, m) == ((seed * 7 + tag * 13 + l * 5 + Mn(i, j) * 3 + Mx(i, j) * 11 + Mn(i, j) * Mx(i, j) + l * l * tag) % m)
Sym3(F(_, _, _)) == [l \in Li |-> [i \in Ti |-> [j \in Ti |-> F(l, i, j)]]]

Instance(seed) ==
    [seed |-> seed,
     Hk  |-> Sym3(LAMBDA l, i, j : <<Gen(seed, 1, l, i, j, 7) - 3, 1>>),
     \* multiples of 1/4; seeds >= 100: multiples of 1/64 (weak direct correlations, so that 1 + C S C stays positive and the
     \* Percus-Yevick form of the solvation potential, -kT ln(1 + C S C), is defined at every wavenumber)
     Ck  |-> Sym3(LAMBDA l, i, j : RNorm(Gen(seed, 2, l, i, j, 7) - 3, IF seed >= 100 THEN 64 ELSE 4)),
     Wk  |-> Sym3(LAMBDA l, i, j : <<IF i = j THEN 1 + Gen(seed, 3, l, i, j, 3) ELSE Gen(seed, 4, l, i, j, 2), 1>>),
     Hr  |-> Sym3(LAMBDA l, i, j : <<Gen(seed, 5, l, i, j, 4), 1>>),             \* h >= 0, so g = h + 1 > 0
     rho |-> [i \in Ti |-> <<1 + Gen(seed, 6, 1, i, i, 3), 1>>],
     d   |-> [i \in Ti |-> IF Gen(seed, 7, 1, i, i, 3) = 0 THEN 4 ELSE 1],
     kT  |-> <<1 + (seed % 2), 1>>]

\* ---------------------------------------------------------------- densities
RhoPair(I, i, j) == RMul(I.rho[i], I.rho[j])
RhoSite(I, i, j) == IF i = j THEN I.rho[i] ELSE RAdd(I.rho[i], I.rho[j])
RECURSIVE RhoTotalTo(_, _)
RhoTotalTo(I, n) == IF n = 0 THEN RZero ELSE RAdd(I.rho[n], RhoTotalTo(I, n - 1))
RhoTotal(I) == RhoTotalTo(I, Rk)

\* quadratic through (dk, y1), (2dk, y2), (3dk, y3) evaluated at k = 0
Extrap(y1, y2, y3) == RAdd(RSub(RMul(<<3, 1>>, y1), RMul(<<3, 1>>, y2)), y3)

\* ---------------------------------------------------------------- definitions
PairCorrelation(I) == Sym3(LAMBDA l, i, j : RAdd(I.Hr[l][i][j], ROne))                 \* g = h + 1

StructureFactor(I, normalize) ==                                                       \* rho_site*omega + rho_pair*h
    Sym3(LAMBDA l, i, j :
           LET s == RAdd(I.Wk[l][i][j], RMul(RhoPair(I, i, j), I.Hk[l][i][j]))
           IN  IF normalize THEN RDiv(s, RhoSite(I, i, j)) ELSE s)

SecondVirial(I, extrapolate) ==                                                        \* -h(k -> 0)/2
    [i \in Ti |-> [j \in Ti |->
        LET y(l) == RMul(<<-1, 2>>, I.Hk[l][i][j])
        IN  IF extrapolate THEN Extrap(y(1), y(2), y(3)) ELSE y(1)]]

\* det(I - Omega C) of the 2x2 block (i, j), via the block matrices
BlockDet(I, l, i, j) ==
    LET a == I.Wk[l][i][i]  b == I.Wk[l][i][j]  d == I.Wk[l][j][j]
        p == I.Ck[l][i][i]  q == I.Ck[l][i][j]  s == I.Ck[l][j][j]
        m11 == RSub(ROne, RAdd(RMul(a, p), RMul(b, q)))
        m12 == RNeg(RAdd(RMul(a, q), RMul(b, s)))
        m21 == RNeg(RAdd(RMul(b, p), RMul(d, q)))
        m22 == RSub(ROne, RAdd(RMul(b, q), RMul(d, s)))
    IN  RSub(RMul(m11, m22), RMul(m12, m21))

\* the same quantity expanded term by term (the shape an implementation evaluates)
BlockDetExpanded(I, l, i, j) ==
    LET a == I.Wk[l][i][i]  b == I.Wk[l][i][j]  d == I.Wk[l][j][j]
        p == I.Ck[l][i][i]  q == I.Ck[l][i][j]  s == I.Ck[l][j][j]
        T(x, y, z, w) == RMul(RMul(x, y), RMul(z, w))
    IN  RAdd(RSub(RSub(RSub(ROne, RMul(p, a)), RMul(<<2, 1>>, RMul(q, b))), RMul(s, d)),
             RAdd(RSub(T(q, q, b, b), T(p, s, b, b)), RSub(T(p, s, a, d), T(q, q, a, d))))

Spinodal(I, limit) ==            \* limit = TRUE: quadratic extrapolation to k = 0; FALSE: value at the lowest k
    [i \in Ti |-> [j \in Ti |->
        IF i < j THEN (IF limit THEN Extrap(BlockDet(I, 1, i, j), BlockDet(I, 2, i, j), BlockDet(I, 3, i, j))
                       ELSE BlockDet(I, 1, i, j))
        ELSE <<>>]]

\* site-volume ratio R = (d_i/d_j)^3 and its square root (diameters are 1 or 4)
VolRatio(I, i, j)  == RPow(<<I.d[i], I.d[j]>>, 3)
SqrtRatio(I, i, j) == IF I.d[i] = I.d[j] THEN ROne ELSE IF I.d[i] > I.d[j] THEN <<8, 1>> ELSE <<1, 8>>

\* the part of chi the statement fixes for every R: C_aa/R + R C_bb - 2 C_ab
ChiWeights(I, l, i, j) ==
    LET Rv == VolRatio(I, i, j)
    IN  RSub(RAdd(RDiv(I.Ck[l][i][i], Rv), RMul(Rv, I.Ck[l][j][j])), RMul(<<2, 1>>, I.Ck[l][i][j]))
\* prefactor: rho/2 for equal volumes; in general rho / (2 (phi_a/sqrt(R) + phi_b sqrt(R)))
ChiPrefactor(I, i, j) ==
    LET sq   == SqrtRatio(I, i, j)
        phia == RDiv(I.rho[i], RAdd(I.rho[i], I.rho[j]))
        phib == RDiv(I.rho[j], RAdd(I.rho[i], I.rho[j]))
    IN  RDiv(RMul(<<1, 2>>, RhoTotal(I)), RAdd(RDiv(phia, sq), RMul(phib, sq)))
ChiAt(I, l, i, j) == RMul(ChiPrefactor(I, i, j), ChiWeights(I, l, i, j))
Chi(I, extrapolate) ==
    [i \in Ti |-> [j \in Ti |->
        IF i < j THEN (IF extrapolate THEN <<Extrap(ChiAt(I, 1, i, j), ChiAt(I, 2, i, j), ChiAt(I, 3, i, j))>>
                       ELSE [l \in Li |-> ChiAt(I, l, i, j)])
        ELSE <<>>]]
ChiWeightsOnly(I) == [i \in Ti |-> [j \in Ti |-> IF i < j THEN [l \in Li |-> ChiWeights(I, l, i, j)] ELSE <<>>]]

\* C S C per wavenumber, S the structure factor AS RETURNED by structure_factor (normalised)
RECURSIVE Sum2(_, _, _, _, _, _, _)
Sum2(A, B, C, l, i, j, n) ==     \* sum over (a, b) in the first n pairs of Ti x Ti of A[i][a] B[a][b] C[b][j]
    IF n = 0 THEN RZero
    ELSE LET a == ((n - 1) \div Rk) + 1
             b == ((n - 1) % Rk) + 1
         IN  RAdd(RMul(RMul(A[l][i][a], B[l][a][b]), C[l][b][j]), Sum2(A, B, C, l, i, j, n - 1))
CSC(I) == LET S == StructureFactor(I, TRUE)
          IN  Sym3(LAMBDA l, i, j : Sum2(I.Ck, S, I.Ck, l, i, j, Rk * Rk))
\* solvation potential in Fourier space before the back-transform: HNC exactly; PY as -kT ln(1 + CSC)
\* (the logarithm and the back-transform are applied by the harness to the exact CSC)
SolvationHNC(I) == LET P == CSC(I) IN Sym3(LAMBDA l, i, j : RMul(RNeg(I.kT), P[l][i][j]))

\* ---------------------------------------------------------------- state machine: one evaluation per edge
Init == /\ \E s \in Seeds : inst = Instance(s)
        /\ last = [act |-> "Init"]

Eval(fn, arg) ==
    /\ UNCHANGED inst
    /\ last' = [act |-> "Eval", fn |-> fn, arg |-> arg, out |->
         CASE fn = "pair_correlation"                                   -> PairCorrelation(inst)
           [] fn = "pmf"                                                -> PairCorrelation(inst)     \* -kT ln(.) applied by the harness
           [] fn = "structure_factor" /\ arg = "normalize=True"         -> StructureFactor(inst, TRUE)
           [] fn = "structure_factor" /\ arg = "normalize=False"        -> StructureFactor(inst, FALSE)
           [] fn = "second_virial" /\ arg = "extrapolate=True"          -> SecondVirial(inst, TRUE)
           [] fn = "second_virial" /\ arg = "extrapolate=False"         -> SecondVirial(inst, FALSE)
           [] fn = "spinodal_condition" /\ arg = "extrapolate=True"     -> Spinodal(inst, TRUE)
           [] fn = "spinodal_condition" /\ arg = "extrapolate=False"    -> Spinodal(inst, FALSE)
           [] fn = "chi" /\ arg = "extrapolate=True"                    -> Chi(inst, TRUE)
           [] fn = "chi" /\ arg = "extrapolate=False"                   -> Chi(inst, FALSE)
           [] fn = "solvation_potential" /\ arg = "closure=HNC"         -> SolvationHNC(inst)
           [] fn = "solvation_potential" /\ arg = "closure=PY"          -> CSC(inst),
         weights |-> IF fn = "chi" THEN ChiWeightsOnly(inst) ELSE <<>>,
         limit |-> IF fn = "spinodal_condition" THEN Spinodal(inst, TRUE) ELSE <<>>]

Variants ==
    {<<"pair_correlation", "-">>, <<"pmf", "-">>,
     <<"structure_factor", "normalize=True">>, <<"structure_factor", "normalize=False">>,
     <<"second_virial", "extrapolate=True">>, <<"second_virial", "extrapolate=False">>,
     <<"chi", "extrapolate=True">>, <<"chi", "extrapolate=False">>,
     <<"spinodal_condition", "extrapolate=True">>, <<"spinodal_condition", "extrapolate=False">>,
     <<"solvation_potential", "closure=HNC">>, <<"solvation_potential", "closure=PY">>}

Next == \E v \in Variants : Eval(v[1], v[2])

\* ---------------------------------------------------------------- statements TLC checks per instance
Symmetric3(A) == \A l \in Li, i, j \in Ti : A[l][i][j] = A[l][j][i]
SymmetricOutputs ==
    /\ Symmetric3(PairCorrelation(inst)) /\ Symmetric3(StructureFactor(inst, TRUE))
    /\ Symmetric3(StructureFactor(inst, FALSE)) /\ Symmetric3(CSC(inst))
    /\ \A i, j \in Ti : SecondVirial(inst, TRUE)[i][j] = SecondVirial(inst, TRUE)[j][i]
SpinodalIsBlockDeterminant ==
    \A l \in Li, i, j \in Ti : i < j => BlockDet(inst, l, i, j) = BlockDetExpanded(inst, l, i, j)
\* Extrap reproduces the constant term of any quadratic sampled at k = dk, 2dk, 3dk
Quad(a, b, c, k) == RAdd(a, RAdd(RMul(b, <<k, 1>>), RMul(c, <<k * k, 1>>)))
ExtrapolationIsQuadratic ==
    \A a, b, c \in {<<-2, 1>>, <<0, 1>>, <<1, 3>>, <<5, 2>>} :
        Extrap(Quad(a, b, c, 1), Quad(a, b, c, 2), Quad(a, b, c, 3)) = a
\* equal site volumes: chi = (rho/2)(C_aa + C_bb - 2 C_ab)
ChiEqualVolumes ==
    \A l \in Li, i, j \in Ti : (i < j /\ inst.d[i] = inst.d[j]) =>
        ChiAt(inst, l, i, j) = RMul(RMul(<<1, 2>>, RhoTotal(inst)),
                                    RSub(RAdd(inst.Ck[l][i][i], inst.Ck[l][j][j]), RMul(<<2, 1>>, inst.Ck[l][i][j])))
=============================================================================
