--------------------------- MODULE Trace_DensDiam ---------------------------
(***************************************************************************)
(* Validation of Density / Diameter events recorded from real pyPRISM      *)
(* executions against spec/DensDiam.tla.  One run per number of types N;   *)
(* "density.new" / "diameter.new" start a new object.  Densities are logged*)
(* in units of 1e-3 (pair products in 1e-6), diameters in units of 1e-2    *)
(* (doubled sigma in 1e-2, 6 V / pi in 1e-6); the harness only passes      *)
(* objects whose values are exact in these units, so the specification's   *)
(* integer arithmetic is exact for them.                                   *)
(***************************************************************************)
EXTENDS DensDiam, Json, IOUtils

Log == ndJsonDeserialize(IOEnv.TRACE_FILE)
VARIABLE l

Clause(name, c) == c \/ (PrintT(<<"REJECT", ToJson([l |-> l, clause |-> name, seq |-> Log[l].seq])>>) /\ FALSE)
IsEvent(e) == l <= Len(Log) /\ Log[l].ev = e /\ l' = l + 1
Ok(e) == e.exc = ""

DensityMatches(e) ==
    /\ Clause("Density.value", \A i \in Idx : rho'[i] = e.rho[i])
    /\ Clause("PairOK", \A i, j \in Idx : Assigned(rho', i, j) => pair'[i][j] = e.pair[i][j])
    /\ Clause("SiteOK", \A i, j \in Idx : Assigned(rho', i, j) => site'[i][j] = e.site[i][j])
    /\ Clause("TotalOK", total' = e.total)

DiameterMatches(e) ==
    /\ Clause("Diameter.value", \A i \in Idx : diam'[i] = e.d[i])
    /\ Clause("SigmaOK", \A i, j \in Idx : Assigned(diam', i, j) => sig2'[i][j] = e.sig2[i][j])
    /\ Clause("VolumeOK", \A i \in Idx : diam'[i] # 0 => vol'[i] * vol'[i] * vol'[i] = e.vol6[i])

TrDensityNew ==
    /\ IsEvent("density.new")
    /\ rho' = [i \in Idx |-> 0] /\ pair' = Zero /\ site' = Zero /\ total' = 0
    /\ UNCHANGED mvars /\ last' = [act |-> "New"]

TrDensitySet ==
    /\ IsEvent("density.set")
    /\ LET e == Log[l]
       IN  IF Ok(e) THEN /\ Clause("KeysKnown", \A n \in 1 .. Len(e.k) : e.k[n] \in Idx)
                         /\ SetDensity(e.k, e.v) /\ DensityMatches(e)
           ELSE UNCHANGED <<vars, last>>

TrDensityCheck ==
    /\ IsEvent("density.check")
    /\ LET e == Log[l]
       IN  /\ DensityCheck
           /\ Clause("CheckRaisesIffUnassigned", last'.raises <=> (e.exc = "ValueError"))
           /\ Clause("CheckOnlyValueError", e.exc \in {"", "ValueError"})

TrDiameterNew ==
    /\ IsEvent("diameter.new")
    /\ diam' = [i \in Idx |-> 0] /\ vol' = [i \in Idx |-> 0] /\ sig2' = Zero
    /\ UNCHANGED dvars /\ last' = [act |-> "New"]

TrDiameterSet ==
    /\ IsEvent("diameter.set")
    /\ LET e == Log[l]
       IN  IF Ok(e) THEN /\ Clause("KeysKnown", \A n \in 1 .. Len(e.k) : e.k[n] \in Idx)
                         /\ SetDiameter(e.k, e.v) /\ DiameterMatches(e)
           ELSE UNCHANGED <<vars, last>>

TrDiameterCheck ==
    /\ IsEvent("diameter.check")
    /\ LET e == Log[l]
       IN  /\ DiameterCheck
           /\ Clause("CheckRaisesIffUnassigned", last'.raises <=> (e.exc = "ValueError"))
           /\ Clause("CheckOnlyValueError", e.exc \in {"", "ValueError"})

TraceInit == Init /\ l = 1
TraceNext == TrDensityNew \/ TrDensitySet \/ TrDensityCheck \/ TrDiameterNew \/ TrDiameterSet \/ TrDiameterCheck
TraceView == <<vars, l>>
TraceAccepted ==
    LET d == TLCGet("stats").diameter - 1
    IN  /\ PrintT(<<"TRACE", ToJson([accepted |-> d, total |-> Len(Log)])>>)
        /\ d = Len(Log)
=============================================================================
