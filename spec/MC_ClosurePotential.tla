------------------------ MODULE MC_ClosurePotential ------------------------
(* Model-checking wrapper of ClosurePotential: the potential-object run (PInit/PNext) and the
   closure-object run (CInit/CNext), with the labelled state graph and the term tables exported
   for the replay on the real classes. *)
EXTENDS ClosurePotential, Json
MC_Sigmas == {1, 3, 4, 6, 17}
MC_Cuts   == {0, 5, 6, 10, 40}
MC_Diams  == {2, 4, 6}
PSt      == [pot |-> pot,  dia |-> dia]
PStPrime == [pot |-> pot', dia |-> dia']
CSt      == [clo |-> clo]
CStPrime == [clo |-> clo']
Info == [pot |-> PotTerms, rel |-> ClosRel, core |-> ClosCore,
         drel |-> [k \in DOMAIN ClosRel |-> Diff(ClosRel[k], "gamma")]]    \* local slope of each relation in gamma
MCPInit == PInit /\ PrintT(<<"INIT", ToJson(PSt)>>)
MCCInit == CInit /\ PrintT(<<"INIT", ToJson(CSt)>>)
ASSUME PrintT(<<"INFO", ToJson(Info)>>)
PView == <<pot, dia>>
CView == <<clo>>
PEdge == PrintT(<<"EDGE", ToJson([from |-> PSt, to |-> PStPrime, l |-> last'])>>)
CEdge == PrintT(<<"EDGE", ToJson([from |-> CSt, to |-> CStPrime, l |-> last'])>>)
NoEdge == TRUE
=============================================================================
