--------------------------- MODULE PairCountInd ---------------------------
(***************************************************************************)
(* OmegaModels.tla, statements PairCount / LimitAtOne, without the bound   *)
(* on N: the weight form of every chain model,                             *)
(*     omega(k) = 1 + SUM_{n=1}^{N-1} (2 (N - n) / N) w_n(k),              *)
(* has total weight N when every w_n = 1 (k -> 0), for EVERY chain length: *)
(*     N + SUM_{n=1}^{N-1} 2 (N - n) = N^2.                                *)
(* The sum is unrolled as a loop (acc, n); IndInv is inductive and implies *)
(* the statement at loop exit.  Checked by Apalache for symbolic N:        *)
(*   apalache-mc check --cinit=CInit --init=IndInit --inv=IndInv --length=1*)
(*   apalache-mc check --cinit=CInit --init=IndInit --inv=ExitOK --length=0*)
(*   apalache-mc check --cinit=CInit --init=Init    --inv=IndInv --length=0*)
(***************************************************************************)
EXTENDS Integers
CONSTANT
    \* @type: Int;
    N
VARIABLES
    \* @type: Int;
    n,
    \* @type: Int;
    acc

CInit == N \in Nat /\ N >= 2
Init == n = 1 /\ acc = 0
Next == /\ n < N
        /\ acc' = acc + 2 * (N - n)
        /\ n' = n + 1
\* after the terms n' < n have been added: acc = SUM_{m=1}^{n-1} 2 (N - m) = (n - 1) (2 N - n)
IndInv == /\ n \in Int /\ acc \in Int /\ 1 <= n /\ n <= N
          /\ acc = (n - 1) * (2 * N - n)
IndInit == /\ n \in Int /\ acc \in Int /\ IndInv
\* at loop exit the ordered pairs at separation >= 1 number N (N - 1); with the N self terms the total weight is N^2
ExitOK == (IndInv /\ n = N) => (acc = N * (N - 1) /\ N + acc = N * N)
\* a deliberately wrong closed form: must be refuted
BadInv == acc = (n - 1) * (2 * N - n - 1)
=============================================================================
