-------------------------------- MODULE Term --------------------------------
(***************************************************************************)
(* First-order terms over a tiny signature, used wherever a definition of  *)
(* the specification contains a transcendental function (closure           *)
(* relations, pair potentials, unit conversions, chain form factors).      *)
(*                                                                         *)
(*   <<"q", n, d>>        rational constant n/d                            *)
(*   <<"v", name>>        variable (bound by the harness to a float array) *)
(*   <<op, a, b>>         op in add sub mul div                            *)
(*   <<op, a>>            op in neg exp ln sqrt sin                        *)
(*   <<"pow", a, n>>      integer power, n >= 0                            *)
(*   <<"vpow", a, b>>     a^b with a term exponent (integer valued)        *)
(*   <<"sum", x, lo, hi, body>>   Sum_{x = lo}^{hi} body  (lo, hi terms)   *)
(*   <<"fn", f, a>>       application of a function bound by the harness   *)
(*   <<"e10", e>>         the power of ten 10^e, e an integer              *)
(*                                                                         *)
(* The definitions are written ONCE, here in TLA+.  TLC does the case      *)
(* analysis (which branch applies at which grid point / for which flag),   *)
(* reduces the rational fragment exactly (REval) and differentiates        *)
(* symbolically (Diff) so that limit statements such as "c = -u + second   *)
(* order" are TLC-checked statements about the definitions.  The harness   *)
(* only owns a generic evaluator of this signature (harness/termeval.py),  *)
(* which is itself validated against REval in every run.                   *)
(***************************************************************************)
EXTENDS Mono, Sequences

TQ(q)      == <<"q", q[1], q[2]>>
TI(n)      == <<"q", n, 1>>
TV(x)      == <<"v", x>>
TAdd(a, b) == <<"add", a, b>>
TSub(a, b) == <<"sub", a, b>>
TMul(a, b) == <<"mul", a, b>>
TDiv(a, b) == <<"div", a, b>>
TNeg(a)    == <<"neg", a>>
TExp(a)    == <<"exp", a>>
TLn(a)     == <<"ln", a>>
TSqrt(a)   == <<"sqrt", a>>
TSin(a)    == <<"sin", a>>
TPow(a, n) == <<"pow", a, n>>
TVPow(a, b) == <<"vpow", a, b>>
TSum(x, lo, hi, body) == <<"sum", x, lo, hi, body>>
TFn(f, a)  == <<"fn", f, a>>
TE10(e)    == <<"e10", e>>

\* the result of a partial evaluation: a normalised rational, or Undef (denominator 0)
Undef    == <<0, 0>>
IsDef(x) == x[2] # 0

\* integer square root of small perfect squares (enough for the instances used)
ISqrt(n) == IF \E s \in 0 .. 64 : s * s = n THEN CHOOSE s \in 0 .. 64 : s * s = n ELSE -1

\* powers stay inside TLC's 32-bit integers: |num|, den <= Bound(n)
PowBound(n) == IF n <= 2 THEN 30000 ELSE IF n <= 3 THEN 1000 ELSE IF n <= 6 THEN 30 ELSE IF n <= 12 THEN 5 ELSE 1

\* float64 semantics assumed for exp of a very negative argument: exp(x) = 0.0 for x <= -746
ExpUnderflow == -746

\* guards: an exact reduction whose intermediates would leave TLC's 32-bit integers is Undef, never a wrap
MulOK(x, y) == y = 0 \/ Abs(x) <= 1000000000 \div Abs(y)
AddOK(a, b) == LET g  == GCD(a[2], b[2])
                   aa == a[2] \div g
                   bb == b[2] \div g
               IN  MulOK(a[1], bb) /\ MulOK(b[1], aa) /\ MulOK(aa, b[2])
RMulOK(a, b) == LET g1 == GCD(Abs(a[1]), b[2])
                    g2 == GCD(Abs(b[1]), a[2])
                    h1 == IF g1 = 0 THEN 1 ELSE g1
                    h2 == IF g2 = 0 THEN 1 ELSE g2
                IN  MulOK(a[1] \div h1, b[1] \div h2) /\ MulOK(a[2] \div h2, b[2] \div h1)

RECURSIVE REval(_, _), RSumRange(_, _, _, _, _)
REval(t, env) ==
    LET op == t[1] IN
    CASE op = "q" -> RNorm(t[2], t[3])
      [] op = "v" -> IF t[2] \in DOMAIN env THEN env[t[2]] ELSE Undef
      [] op \in {"add", "sub", "mul", "div"} ->
            LET a == REval(t[2], env)
                b == REval(t[3], env)
            IN  IF ~IsDef(a) \/ ~IsDef(b) THEN Undef
                ELSE (CASE op = "add" -> IF AddOK(a, b) THEN RAdd(a, b) ELSE Undef
                        [] op = "sub" -> IF AddOK(a, b) THEN RSub(a, b) ELSE Undef
                        [] op = "mul" -> IF RMulOK(a, b) THEN RMul(a, b) ELSE Undef
                        [] op = "div" -> IF b[1] = 0 THEN Undef
                                         ELSE LET ib == IF b[1] < 0 THEN <<-b[2], -b[1]>> ELSE <<b[2], b[1]>>
                                              IN  IF RMulOK(a, ib) THEN RMul(a, ib) ELSE Undef)
      [] op = "neg" -> LET a == REval(t[2], env) IN IF IsDef(a) THEN RNeg(a) ELSE Undef
      [] op = "pow" -> LET a == REval(t[2], env)
                       IN  IF ~IsDef(a) THEN Undef
                           ELSE IF t[3] = 0 THEN ROne
                           ELSE IF Abs(a[1]) > PowBound(t[3]) \/ a[2] > PowBound(t[3]) THEN Undef
                           ELSE RPow(a, t[3])
      [] op = "vpow" -> LET a == REval(t[2], env)
                            b == REval(t[3], env)
                        IN  IF ~IsDef(a) \/ ~IsDef(b) \/ b[2] # 1 \/ b[1] < 0 THEN Undef
                            ELSE IF b[1] = 0 THEN ROne
                            ELSE IF Abs(a[1]) > PowBound(b[1]) \/ a[2] > PowBound(b[1]) THEN Undef
                            ELSE RPow(a, b[1])
      [] op = "sum" -> LET lo == REval(t[3], env)
                           hi == REval(t[4], env)
                       IN  IF ~IsDef(lo) \/ ~IsDef(hi) \/ lo[2] # 1 \/ hi[2] # 1 THEN Undef
                           ELSE RSumRange(t[2], lo[1], hi[1], t[5], env)
      [] op = "fn" -> Undef
      [] op = "e10" -> IF t[2] >= 0 /\ t[2] <= 9 THEN RPow(<<10, 1>>, t[2])
                       ELSE IF t[2] < 0 /\ t[2] >= -9 THEN RDiv(ROne, RPow(<<10, 1>>, -t[2])) ELSE Undef
      [] op = "exp" -> LET a == REval(t[2], env)
                       IN  IF ~IsDef(a) THEN Undef
                           ELSE IF a[1] = 0 THEN ROne
                           ELSE IF RLeq(a, <<ExpUnderflow, 1>>) THEN RZero
                           ELSE Undef
      [] op = "ln"  -> LET a == REval(t[2], env) IN IF IsDef(a) /\ a = ROne THEN RZero ELSE Undef
      [] op = "sin" -> LET a == REval(t[2], env) IN IF IsDef(a) /\ a[1] = 0 THEN RZero ELSE Undef
      [] op = "sqrt" -> LET a == REval(t[2], env)
                        IN  IF ~IsDef(a) \/ a[1] < 0 \/ a[1] > 4096 \/ a[2] > 4096 THEN Undef
                            ELSE IF ISqrt(a[1]) >= 0 /\ ISqrt(a[2]) >= 0 THEN <<ISqrt(a[1]), ISqrt(a[2])>>
                            ELSE Undef

\* Sum_{x = lo}^{hi} body, exactly (empty sum = 0)
RSumRange(x, lo, hi, body, env) ==
    IF hi < lo THEN RZero
    ELSE LET head == REval(body, [n \in (DOMAIN env) \cup {x} |-> IF n = x THEN <<hi, 1>> ELSE env[n]])
             rest == RSumRange(x, lo, hi - 1, body, env)
         IN  IF ~IsDef(head) \/ ~IsDef(rest) \/ ~AddOK(head, rest) THEN Undef ELSE RAdd(head, rest)

\* symbolic derivative with respect to the variable x
RECURSIVE Diff(_, _)
Diff(t, x) ==
    LET op == t[1] IN
    CASE op = "q" -> TI(0)
      [] op = "e10" -> TI(0)
      [] op = "v" -> IF t[2] = x THEN TI(1) ELSE TI(0)
      [] op = "add" -> TAdd(Diff(t[2], x), Diff(t[3], x))
      [] op = "sub" -> TSub(Diff(t[2], x), Diff(t[3], x))
      [] op = "mul" -> TAdd(TMul(Diff(t[2], x), t[3]), TMul(t[2], Diff(t[3], x)))
      [] op = "div" -> TDiv(TSub(TMul(Diff(t[2], x), t[3]), TMul(t[2], Diff(t[3], x))), TPow(t[3], 2))
      [] op = "neg" -> TNeg(Diff(t[2], x))
      [] op = "pow" -> IF t[3] = 0 THEN TI(0) ELSE TMul(TMul(TI(t[3]), TPow(t[2], t[3] - 1)), Diff(t[2], x))
      [] op = "exp" -> TMul(t, Diff(t[2], x))
      [] op = "ln"  -> TDiv(Diff(t[2], x), t[2])
      [] op = "sqrt" -> TDiv(Diff(t[2], x), TMul(TI(2), t))
      [] op = "sin" -> TMul(TSin(TAdd(t[2], TV("halfpi"))), Diff(t[2], x))
      [] op = "sum" -> TSum(t[2], t[3], t[4], Diff(t[5], x))

\* substitution of a term for a variable
RECURSIVE Subst(_, _, _)
Subst(t, x, s) ==
    LET op == t[1] IN
    CASE op = "q" -> t
      [] op = "e10" -> t
      [] op = "v" -> IF t[2] = x THEN s ELSE t
      [] op \in {"add", "sub", "mul", "div"} -> <<op, Subst(t[2], x, s), Subst(t[3], x, s)>>
      [] op = "pow" -> <<op, Subst(t[2], x, s), t[3]>>
      [] op = "vpow" -> <<op, Subst(t[2], x, s), Subst(t[3], x, s)>>
      [] op = "sum" -> <<op, t[2], Subst(t[3], x, s), Subst(t[4], x, s), IF t[2] = x THEN t[5] ELSE Subst(t[5], x, s)>>
      [] op = "fn" -> <<op, t[2], Subst(t[3], x, s)>>
      [] OTHER -> <<op, Subst(t[2], x, s)>>

ASSUME /\ REval(TAdd(TI(1), TQ(<<1, 2>>)), <<>>) = <<3, 2>>
       /\ REval(TExp(TSub(TV("a"), TV("a"))), [a |-> <<7, 3>>]) = ROne
       /\ REval(TExp(TI(-1000)), <<>>) = RZero
       /\ ~IsDef(REval(TExp(TI(1)), <<>>))
       /\ REval(TSqrt(TQ(<<9, 4>>)), <<>>) = <<3, 2>>
       /\ REval(TPow(TQ(<<2, 3>>), 12), <<>>) = <<4096, 531441>>
       /\ ~IsDef(REval(TPow(TQ(<<7, 3>>), 12), <<>>))
       /\ REval(Diff(TMul(TV("x"), TV("x")), "x"), [x |-> <<3, 1>>]) = <<6, 1>>
       /\ REval(Diff(TExp(TMul(TI(2), TV("x"))), "x"), [x |-> RZero]) = <<2, 1>>
       /\ REval(Diff(TSqrt(TAdd(TI(1), TMul(TI(2), TV("x")))), "x"), [x |-> RZero]) = ROne
       /\ REval(Subst(TAdd(TV("x"), TI(1)), "x", TI(4)), <<>>) = <<5, 1>>
       /\ REval(TSum("n", TI(1), TI(4), TMul(TV("n"), TV("c"))), [c |-> <<1, 2>>]) = <<5, 1>>
       /\ REval(TSum("n", TI(1), TI(0), TV("n")), <<>>) = RZero
       /\ REval(TSum("n", TI(0), TI(3), TVPow(TQ(<<1, 2>>), TV("n"))), <<>>) = <<15, 8>>
=============================================================================
