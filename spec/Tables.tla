------------------------------- MODULE Tables -------------------------------
(***************************************************************************)
(* pyPRISM.core.PairTable / ValueTable as a state machine (property C14).  *)
(*                                                                         *)
(* Two descriptions of the same table live side by side:                   *)
(*                                                                         *)
(*  - the IMPLEMENTATION-SHAPED one: a rank x rank grid of slots, each     *)
(*    holding a reference to a heap object (`id`, 0 = None) whose content  *)
(*    is `val`; PairTable.__setitem__ is the code's double loop over       *)
(*    listify(keys1) x listify(keys2) with one deep copy per iteration and *)
(*    a mirrored write for symmetric tables;                               *)
(*  - the PROPERTY-SHAPED one (`ref`): a map from unordered pairs to the   *)
(*    last content assigned, updated atomically per public call.           *)
(*                                                                         *)
(* TLC checks that the first refines the second (RefinesMap) and the       *)
(* isolation/aliasing statements; the harness replays every edge of the    *)
(* state graph on the real classes (harness/props/c14_tables.py) and the   *)
(* trace specification Trace_Tables validates recorded executions.         *)
(*                                                                         *)
(* A payload is a mutable Python list [v, m]: v in Vals the value the user *)
(* assigned, m = 1 once somebody mutated the object in place.  Content     *)
(* <<>> stands for None.                                                   *)
(***************************************************************************)
EXTENDS Naturals, Sequences, FiniteSets, TLC

CONSTANTS N,        \* number of site types (the type list is 1..N in list order)
          Vals,     \* payload values
          Sym       \* symmetric flag of the PairTable

NS      == N * N + 1                  \* table slots row-major, then the caller's object
Caller  == N * N + 1
Slot(i, j) == (i - 1) * N + j
RowOf(s) == ((s - 1) \div N) + 1
ColOf(s) == ((s - 1) % N) + 1
TSlots  == 1 .. (N * N)
None    == <<>>
Idx     == 1 .. N
UPairs  == {<<i, j>> \in Idx \X Idx : i <= j}
Unord(i, j) == IF i <= j THEN <<i, j>> ELSE <<j, i>>
Key(i, j) == IF Sym THEN Unord(i, j) ELSE <<i, j>>      \* what "a pair" is for this table

VARIABLES id,      \* [1..NS -> Nat] object identity held by each slot, 0 = None
          val,     \* [1..NS -> content] content of the object the slot refers to
          ref,     \* property-shaped reference map  Key -> content
          vt,      \* ValueTable: [Idx -> 0 (None) | value]
          last     \* label of the action just taken, with the expected observation

vars == <<id, val, ref, vt>>

(***************************************************************************)
(* Canonical object names: ids are renumbered by first occurrence in slot  *)
(* order so that the state space is finite and equal alias partitions are  *)
(* equal states.                                                           *)
(***************************************************************************)
First(f, s) == CHOOSE t \in 1 .. NS : f[t] = f[s] /\ \A u \in 1 .. (t - 1) : f[u] # f[s]
Canon(f) == [s \in 1 .. NS |->
               IF f[s] = 0 THEN 0
               ELSE Cardinality({f[u] : u \in {w \in 1 .. First(f, s) : f[w] # 0}})]
Fresh(f) == 1 + NS + Cardinality({f[s] : s \in 1 .. NS})   \* above every canonical id

(***************************************************************************)
(* The code's loops.  A store is a record [id, val].                       *)
(***************************************************************************)
Write(st, s, o, c) == [id |-> [st.id EXCEPT ![s] = o], val |-> [st.val EXCEPT ![s] = c]]

\* one iteration of PairTable.__setitem__: deep copy (object `o`, content c), write, mirror
SetOne(st, i, j, o, c) ==
    LET st1 == Write(st, Slot(i, j), o, c)
    IN  IF Sym /\ i # j THEN Write(st1, Slot(j, i), o, c) ELSE st1

RECURSIVE SetLoop(_, _, _, _)
SetLoop(st, pairs, c, o) ==
    IF pairs = <<>> THEN st
    ELSE SetLoop(SetOne(st, Head(pairs)[1], Head(pairs)[2], o, c), Tail(pairs), c, o + 1)

\* listify(keys1) x listify(keys2) in loop order; K1, K2 are sequences of indices
RECURSIVE Cross(_, _)
Cross(K1, K2) ==
    IF K1 = <<>> THEN <<>>
    ELSE [n \in 1 .. Len(K2) |-> <<Head(K1), K2[n]>>] \o Cross(Tail(K1), K2)

\* the order in which PairTable.__iter__ visits slots: product(types, types)
AllPairs == Cross([n \in 1 .. N |-> n], [n \in 1 .. N |-> n])
Filter(pairs, Test(_, _)) == SelectSeq(pairs, LAMBDA p : Test(p[1], p[2]))
UpperPairs  == Filter(AllPairs, LAMBDA i, j : i <= j)
StrictPairs == Filter(AllPairs, LAMBDA i, j : i < j)

\* setUnset: iterpairs() is a live generator; a pair is filled iff it is None when visited
RECURSIVE UnsetLoop(_, _, _, _)
UnsetLoop(st, pairs, c, o) ==
    IF pairs = <<>> THEN st
    ELSE LET i == Head(pairs)[1]
             j == Head(pairs)[2]
         IN  IF st.val[Slot(i, j)] = None
             THEN UnsetLoop(SetOne(st, i, j, o, c), Tail(pairs), c, o + 1)
             ELSE UnsetLoop(st, Tail(pairs), c, o)

\* the function handed to apply() by the harness: a NEW list [3 - v, m]
F(c) == IF c = None THEN None ELSE <<3 - c[1], c[2]>>

RECURSIVE ApplyLoop(_, _, _)
ApplyLoop(st, pairs, o) ==
    IF pairs = <<>> THEN st
    ELSE LET i == Head(pairs)[1]
             j == Head(pairs)[2]
         IN  ApplyLoop(SetOne(st, i, j, o, F(st.val[Slot(i, j)])), Tail(pairs), o + 1)

Store == [id |-> id, val |-> val]
Commit(st) == /\ id'  = Canon(st.id)
              /\ val' = st.val

(***************************************************************************)
(* Reference semantics (what the property says), per public call.          *)
(***************************************************************************)
KeysOf(K1, K2) == {Key(K1[a], K2[b]) : a \in 1 .. Len(K1), b \in 1 .. Len(K2)}
RefKeys == IF Sym THEN UPairs ELSE Idx \X Idx
\* pairs that setUnset / check / apply look at: one representative per unordered pair
Visited == UPairs

(***************************************************************************)
(* Actions: one per public call.                                           *)
(***************************************************************************)
Init == /\ id  = [s \in 1 .. NS |-> 0]
        /\ val = [s \in 1 .. NS |-> None]
        /\ ref = [k \in RefKeys |-> None]
        /\ vt  = [i \in Idx |-> 0]
        /\ last = [act |-> "Init"]

\* table[K1, K2] = [v, 0]   (the caller keeps a reference to the list it passed)
PTSet(K1, K2, v) ==
    LET c   == <<v, 0>>
        o   == Fresh(id)
        st0 == Write(Store, Caller, o, c)                \* the caller's own object
        st  == SetLoop(st0, Cross(K1, K2), c, o + 1)
    IN  /\ Commit(st)
        /\ ref' = [k \in RefKeys |-> IF k \in KeysOf(K1, K2) THEN c ELSE ref[k]]
        /\ UNCHANGED vt
        /\ last' = [act |-> "PTSet", k1 |-> K1, k2 |-> K2, v |-> v]

PTSetUnset(v) ==
    LET c   == <<v, 0>>
        o   == Fresh(id)
        st0 == Write(Store, Caller, o, c)
        st  == UnsetLoop(st0, UpperPairs, c, o + 1)
    IN  /\ Commit(st)
        /\ ref' = [k \in RefKeys |-> IF k \in Visited /\ ref[k] = None THEN c ELSE ref[k]]
        /\ UNCHANGED vt
        /\ last' = [act |-> "PTSetUnset", v |-> v]

Complete == \A p \in Visited : val[Slot(p[1], p[2])] # None

\* apply(F, inplace=True) on a fully specified table
PTApplyIn ==
    /\ Complete
    /\ Commit(ApplyLoop(Store, UpperPairs, Fresh(id)))
    /\ ref' = [k \in RefKeys |-> IF k \in Visited THEN F(ref[k]) ELSE ref[k]]
    /\ UNCHANGED vt
    /\ last' = [act |-> "PTApplyIn"]

\* apply(F, inplace=False): the original is untouched, a new table is returned
PTApplyOut ==
    /\ Complete
    /\ UNCHANGED vars
    /\ last' = [act |-> "PTApplyOut",
                newvals |-> [s \in TSlots |->
                               IF Sym \/ RowOf(s) <= ColOf(s)
                               THEN F(val[Slot(Unord(RowOf(s), ColOf(s))[1], Unord(RowOf(s), ColOf(s))[2])])
                               ELSE None],
                shares |-> FALSE]

\* exportToMatrixArray(): refuses a table with an unset pair (ValueError); otherwise a MatrixArray whose (i,j) and (j,i)
\* pair functions both hold the value of the unordered pair (the upper-triangle entry for a non-symmetric table), carrying
\* the table's type list, and sharing no memory with the table (this is how PRISM.__init__ builds PRISM.omega)
PTExport ==
    /\ UNCHANGED vars
    /\ last' = IF ~Complete THEN [act |-> "PTExport", raises |-> TRUE]
               ELSE [act |-> "PTExport", raises |-> FALSE, shares |-> FALSE,
                     data |-> [s \in TSlots |-> val[Slot(Unord(RowOf(s), ColOf(s))[1], Unord(RowOf(s), ColOf(s))[2])]]]

\* the user mutates, in place, the object read from table[i, j]
MutateStored(i, j) ==
    LET s == Slot(i, j)
    IN  /\ val[s] # None /\ val[s][2] = 0
        /\ val' = [t \in 1 .. NS |-> IF id[t] = id[s] THEN <<val[t][1], 1>> ELSE val[t]]
        /\ ref' = [ref EXCEPT ![Key(i, j)] = <<@[1], 1>>]
        /\ UNCHANGED <<id, vt>>
        /\ last' = [act |-> "MutateStored", i |-> i, j |-> j]

\* the user mutates the object they passed to the last assignment / setUnset
MutateCaller ==
    /\ val[Caller] # None /\ val[Caller][2] = 0
    /\ val' = [t \in 1 .. NS |-> IF id[t] = id[Caller] THEN <<val[t][1], 1>> ELSE val[t]]
    /\ UNCHANGED <<id, ref, vt>>
    /\ last' = [act |-> "MutateCaller"]

PTCheck ==
    /\ UNCHANGED vars
    /\ last' = [act |-> "PTCheck", raises |-> ~Complete]

Visit(pairs) == [n \in 1 .. Len(pairs) |->
                   <<pairs[n][1], pairs[n][2], val[Slot(pairs[n][1], pairs[n][2])]>>]
PTIter(mode) ==
    /\ UNCHANGED vars
    /\ last' = [act |-> "PTIter", mode |-> mode,
                out |-> CASE mode = "full"       -> Visit(AllPairs)
                          [] mode = "diagonal"   -> Visit(UpperPairs)
                          [] mode = "offdiag"    -> Visit(StrictPairs)]

(***************************************************************************)
(* ValueTable (no copies: the statement demands isolation of PairTable     *)
(* only, so payloads are immutable integers and identity is not modelled). *)
(***************************************************************************)
VTSet(K, v) ==
    /\ vt' = [i \in Idx |-> IF \E n \in 1 .. Len(K) : K[n] = i THEN v ELSE vt[i]]
    /\ UNCHANGED <<id, val, ref>>
    /\ last' = [act |-> "VTSet", k |-> K, v |-> v]

VTSetUnset(v) ==
    /\ vt' = [i \in Idx |-> IF vt[i] = 0 THEN v ELSE vt[i]]
    /\ UNCHANGED <<id, val, ref>>
    /\ last' = [act |-> "VTSetUnset", v |-> v]

VTCheck ==
    /\ UNCHANGED vars
    /\ last' = [act |-> "VTCheck", raises |-> \E i \in Idx : vt[i] = 0]

VTIter ==
    /\ UNCHANGED vars
    /\ last' = [act |-> "VTIter", out |-> [i \in Idx |-> <<i, vt[i]>>]]

\* key lists: every non-empty sub-list of the type list, in list order and reversed
SubSeqs == LET sets == SUBSET Idx \ {{}}
               Asc(S) == CHOOSE q \in [1 .. Cardinality(S) -> S] :
                            \A a, b \in 1 .. Cardinality(S) : a < b => q[a] < q[b]
               Rev(q) == [n \in 1 .. Len(q) |-> q[Len(q) + 1 - n]]
           IN  {Asc(S) : S \in sets} \cup {Rev(Asc(S)) : S \in sets}
               \* a type may be listed more than once in a key list (it is then simply written twice)
               \cup {<<i, i>> : i \in Idx} \cup {<<i, j, i>> : <<i, j>> \in {p \in Idx \X Idx : p[1] # p[2]}}

PTNext == \/ \E K1 \in SubSeqs, K2 \in SubSeqs, v \in Vals : PTSet(K1, K2, v)
          \/ \E v \in Vals : PTSetUnset(v)
          \/ PTApplyIn
          \/ PTApplyOut
          \/ PTExport
          \/ \E i, j \in Idx : MutateStored(i, j)
          \/ MutateCaller
          \/ PTCheck
          \/ \E mode \in {"full", "diagonal", "offdiag"} : PTIter(mode)

VTNext == \/ \E K \in SubSeqs, v \in Vals : VTSet(K, v)
          \/ \E v \in Vals : VTSetUnset(v)
          \/ VTCheck
          \/ VTIter

Next == PTNext \/ VTNext

(***************************************************************************)
(* What the property states.                                               *)
(***************************************************************************)
TypeOK == /\ id \in [1 .. NS -> 0 .. NS]
          /\ \A s \in 1 .. NS : (id[s] = 0) <=> (val[s] = None)
          /\ id = Canon(id)

\* an object has one content, whichever slot it is read through
AliasCoherent == \A s, t \in 1 .. NS : id[s] = id[t] => val[s] = val[t]

\* the implementation-shaped table is the property's map: last write wins, from either order
RefinesMap == \A i, j \in Idx : val[Slot(i, j)] = ref[Key(i, j)]

Symmetric == Sym => \A i, j \in Idx : /\ val[Slot(i, j)] = val[Slot(j, i)]
                                       /\ id[Slot(i, j)]  = id[Slot(j, i)]

\* values assigned to several pairs are independent copies, and none is the caller's object
Isolation == /\ \A s, t \in TSlots : (id[s] # 0 /\ id[s] = id[t]) =>
                                        Key(RowOf(s), ColOf(s)) = Key(RowOf(t), ColOf(t))
             /\ \A s \in TSlots : id[s] # 0 => id[s] # id[Caller]

\* setUnset fills only pairs never assigned (action property)
SetUnsetOnlyFillsUnset ==
    [][last'.act = "PTSetUnset" => \A k \in RefKeys : ref[k] # None => ref'[k] = ref[k]]_<<vars, last>>

\* an exported MatrixArray is symmetric whatever the table's symmetric flag is
ExportSymmetric ==
    (last.act = "PTExport" /\ ~last.raises) =>
        \A i, j \in Idx : last.data[Slot(i, j)] = last.data[Slot(j, i)]

\* out-of-place apply leaves the original untouched
ApplyOutLeavesOriginal ==
    [][last'.act = "PTApplyOut" => UNCHANGED vars]_<<vars, last>>

=============================================================================
