-------------------------- MODULE ClosurePotential --------------------------
(***************************************************************************)
(* The potential and closure OBJECTS of pyPRISM as small state machines    *)
(* over the definitions of module ClosureDefs (properties C09, C10).       *)
(***************************************************************************)
EXTENDS ClosureDefs

CONSTANTS Sigmas,     \* contact distances (half units) a user may set explicitly
          Cuts,       \* LJ cut-off distances (half units); 0 = no cut-off
          Diams       \* site diameters (half units) for sigma defaulting

\* ------------------------------------------------------------------ state
VARIABLES pot,     \* [kind, sigma2, rcut2, shift]
          dia,     \* <<dA, dB>> diameters of the pair's two sites (half units)
          clo,     \* [kind, flag, sigma2, pot]  (pot = "unset" or the name of a potential family)
          last
vars == <<pot, dia, clo, last>>

PotFamilies == {"hs", "finite", "zero"}     \* what the harness puts into closure.potential

\* ------------------------------------------------------------------ potential object machine
PInit == /\ pot \in [kind : PotKinds, sigma2 : {Unset} \cup Sigmas, rcut2 : {0}, shift : {FALSE}]
         /\ dia \in Diams \X Diams /\ (dia[1] + dia[2]) % 2 = 0
         /\ clo = [kind |-> "PY", flag |-> FALSE, sigma2 |-> Unset, pot |-> "unset"]
         /\ last = [act |-> "Init"]

PSetSigma(s) == /\ pot' = [pot EXCEPT !.sigma2 = s]
                /\ last' = [act |-> "SetSigma", sigma2 |-> s]
                /\ UNCHANGED <<dia, clo>>
\* what PRISM.__init__ does with a potential: only set sigma if it was not set directly
PWire == /\ pot' = [pot EXCEPT !.sigma2 = IF pot.sigma2 = Unset THEN (dia[1] + dia[2]) \div 2 ELSE pot.sigma2]
         /\ last' = [act |-> "Wire", dA |-> dia[1], dB |-> dia[2], sigma2 |-> pot'.sigma2]
         /\ UNCHANGED <<dia, clo>>
PSetCut(rc, sh) == /\ pot.kind = "LennardJones"
                   /\ pot' = [pot EXCEPT !.rcut2 = rc, !.shift = sh]
                   /\ last' = [act |-> "SetCut", rcut2 |-> rc, shift |-> sh]
                   /\ UNCHANGED <<dia, clo>>
PCalculate == /\ UNCHANGED <<pot, dia, clo>>          \* evaluation is pure
              /\ last' = IF pot.sigma2 = Unset
                         THEN [act |-> "Calculate", raises |-> "AssertionError"]
                         ELSE [act |-> "Calculate", raises |-> "none",
                               branch |-> [i \in Pts |-> PotBranch(pot, i)],
                               region |-> [i \in Pts |-> Region(i, pot.sigma2)],
                               exact  |-> [i \in Pts |-> PotExact(pot, i)]]
PNext == \/ \E s \in Sigmas : PSetSigma(s)
         \/ PWire
         \/ \E rc \in Cuts, sh \in BOOLEAN : PSetCut(rc, sh)
         \/ PCalculate

\* ------------------------------------------------------------------ closure object machine
CInit == /\ clo \in [kind : ClosKinds, flag : BOOLEAN, sigma2 : {Unset}, pot : {"unset"}]
         /\ pot = [kind |-> "HardSphere", sigma2 |-> Unset, rcut2 |-> 0, shift |-> FALSE]
         /\ dia = <<2, 2>>
         /\ last = [act |-> "Init"]
\* The closure's potential is an ARRAY the user owns.  Three ways its values change, all leading to the same abstract state
\* "the closure's potential is f": a new array is assigned ("new"); the user refills the array he assigned before and assigns
\* it again ("refill", a sweep re-using one buffer); the user modifies that array in place and assigns nothing ("inplace",
\* e.g. closure.potential *= 2).  The relation must hold for the values the potential has NOW in all three.
Hows == {"new", "refill", "inplace"}
CSetPotential(f, how) == /\ (how # "new" => clo.pot # "unset")
                         /\ clo' = [clo EXCEPT !.pot = f]
                         /\ last' = [act |-> "SetPotential", fam |-> f, how |-> how]
                         /\ UNCHANGED <<pot, dia>>
CSetSigma(s) == /\ clo' = [clo EXCEPT !.sigma2 = s]
                /\ last' = [act |-> "SetSigma", sigma2 |-> s]
                /\ UNCHANGED <<pot, dia>>
\* gamma families: names only; the harness generates the arrays
GammaFamilies == {"zero", "small", "large", "ramp"}
CCalculate(gf) ==
    /\ UNCHANGED <<pot, dia, clo>>                    \* pure: potential, sigma, flag and the inputs stay as they are
    /\ last' = IF clo.pot = "unset" THEN [act |-> "Calculate", gamma |-> gf, raises |-> "AssertionError"]
               ELSE IF clo.flag /\ clo.sigma2 = Unset THEN [act |-> "Calculate", gamma |-> gf, raises |-> "some"]
               ELSE [act |-> "Calculate", gamma |-> gf, raises |-> "none",
                     branch |-> [i \in Pts |-> ClosBranch(clo, i)]]
CNext == \/ \E f \in PotFamilies, how \in Hows : CSetPotential(f, how)
         \/ \E s \in Sigmas : CSetSigma(s)
         \/ \E gf \in GammaFamilies : CCalculate(gf)

\* ------------------------------------------------------------------ statements about the potential definitions
ExactDefined(p, i) == IsDef(PotExact(p, i))

\* C10: the overlap value at every grid point AT OR INSIDE sigma, the tail strictly outside
CoreIsContactInclusive ==
    (pot.kind \in CoreKinds /\ pot.sigma2 # Unset) =>
        \A i \in Pts : /\ (Region(i, pot.sigma2) \in {"inside", "contact"}) <=> (PotBranch(pot, i) = "core")
                       /\ PotBranch(pot, i) = "core" => PotExact(pot, i) = <<1000000, 1>>
\* C10: exactly zero beyond the cut
LJZeroBeyondCut ==
    (pot.kind = "LennardJones" /\ pot.rcut2 # 0 /\ pot.sigma2 # Unset) =>
        \A i \in Pts : 2 * i > pot.rcut2 => PotExact(pot, i) = RZero
\* C10: continuous at the cut when shifted: the shifted branch evaluated AT r = rcut vanishes
LJShiftContinuous ==
    (pot.kind = "LennardJones" /\ pot.rcut2 # 0 /\ pot.shift /\ pot.sigma2 # Unset) =>
        LET v == REval(PotTerms["LennardJones"]["shifted"],
                       [r |-> <<pot.rcut2, 1>>, sigma |-> <<pot.sigma2, 1>>, rcut |-> <<pot.rcut2, 1>>, eps |-> <<3, 2>>])
        IN  IsDef(v) => v = RZero
\* C10: WCA is non-negative (eps > 0), zero beyond 2^(1/6) sigma and continuous there:
\*      with x = (sigma/r)^6 the repulsive branch is 4 eps (x^2 - x) + eps = eps (2x - 1)^2 >= 0, and = 0 at x = 1/2
WCAForm(x) == TAdd(TMul(TMul(TI(4), eps_), TSub(TPow(x, 2), x)), eps_)
WCAStatements ==
    /\ REval(WCAForm(TQ(<<1, 2>>)), [eps |-> <<3, 2>>]) = RZero
    /\ \A n \in 1 .. 12 : LET x == <<n, 4>>
                          IN  REval(WCAForm(TQ(x)), [eps |-> <<3, 2>>])
                                = RMul(<<3, 2>>, RPow(RSub(RMul(<<2, 1>>, x), ROne), 2))
    /\ (pot.kind = "WeeksChandlerAndersen" /\ pot.sigma2 # Unset) =>
          \A i \in Pts : IF PotBranch(pot, i) = "zero" THEN PotExact(pot, i) = RZero
                         ELSE (ExactDefined(pot, i) => RLeq(RZero, PotExact(pot, i)))
\* C10: an explicitly given sigma is used, otherwise the arithmetic mean of the two diameters (action property)
SigmaDefault ==
    [][last'.act = "Wire" => pot'.sigma2 = IF pot.sigma2 # Unset THEN pot.sigma2 ELSE (dia[1] + dia[2]) \div 2]_vars
\* evaluation never changes the object (repeatable)
CalculatePure == [][last'.act = "Calculate" => (pot' = pot /\ clo' = clo)]_vars

\* C09: a flagged closure applies the relation strictly outside sigma only; unflagged everywhere
ClosureBranches ==
    \A i \in Pts : ClosBranch(clo, i) = "core" <=> (clo.flag /\ Region(i, clo.sigma2) # "outside")
=============================================================================
