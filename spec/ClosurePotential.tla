-------------------------- MODULE ClosurePotential --------------------------
(***************************************************************************)
(* Pair potentials and atomic closures of pyPRISM as DEFINITIONS, and the  *)
(* objects that carry them as small state machines (properties C03, C09,   *)
(* C10).                                                                   *)
(*                                                                         *)
(* Grid: points i = 1 .. L with r_i = i*dr.  All distances of the          *)
(* specification are integers in HALF units of dr, so the grid point i     *)
(* sits at 2i, a contact distance "sigma2" is on the grid iff it is even,  *)
(* and the region of a grid point relative to a core is decided in         *)
(* integer arithmetic:                                                     *)
(*      inside   2i < sigma2     contact  2i = sigma2    outside 2i > s2   *)
(* The statement of C10 is that CONTACT IS CORE for every pair alike.      *)
(*                                                                         *)
(* Values are terms (module Term) over the variables r, sigma, rcut, eps,  *)
(* alpha, high (potentials; energy units) and gamma, u (closures; u is the *)
(* potential divided by kT).  TLC decides, per object state and grid       *)
(* point, WHICH term applies, reduces it exactly where it is rational      *)
(* (distances in half units: r = 2i, sigma = sigma2), and checks the       *)
(* property statements on the definitions themselves.  The harness binds   *)
(* the variables to the real arrays and compares the real classes point by *)
(* point.                                                                  *)
(***************************************************************************)
EXTENDS Term, FiniteSets

CONSTANTS L,          \* number of grid points
          Sigmas,     \* contact distances (half units) a user may set explicitly
          Cuts,       \* LJ cut-off distances (half units); 0 = no cut-off
          Diams       \* site diameters (half units) for sigma defaulting

Pts == 1 .. L
Unset == 0

Region(i, s2) == IF 2 * i < s2 THEN "inside" ELSE IF 2 * i = s2 THEN "contact" ELSE "outside"
InCore(i, s2) == 2 * i <= s2

\* ------------------------------------------------------------------ potentials
PotKinds  == {"HardSphere", "Exponential", "HardCoreLennardJones", "LennardJones", "WeeksChandlerAndersen"}
CoreKinds == {"HardSphere", "Exponential", "HardCoreLennardJones"}

r_     == TV("r")
sigma_ == TV("sigma")
rcut_  == TV("rcut")
eps_   == TV("eps")
alpha_ == TV("alpha")
high_  == TV("high")

SoverR(rr)  == TDiv(sigma_, rr)
LJFull(rr)  == TMul(TMul(TI(4), eps_), TSub(TPow(SoverR(rr), 12), TPow(SoverR(rr), 6)))
HCLJTail    == TMul(eps_, TSub(TPow(SoverR(r_), 12), TMul(TI(2), TPow(SoverR(r_), 6))))
ExpTail     == TNeg(TMul(eps_, TExp(TNeg(TDiv(TSub(r_, sigma_), alpha_)))))

\* the terms of every branch of every potential
PotTerms ==
    [HardSphere            |-> [core |-> high_, tail |-> TI(0)],
     Exponential           |-> [core |-> high_, tail |-> ExpTail],
     HardCoreLennardJones  |-> [core |-> high_, tail |-> HCLJTail],
     LennardJones          |-> [full |-> LJFull(r_), shifted |-> TSub(LJFull(r_), LJFull(rcut_)), zero |-> TI(0)],
     WeeksChandlerAndersen |-> [repulsive |-> TAdd(LJFull(r_), eps_), zero |-> TI(0)]]

\* a potential object: kind, contact distance (Unset = None), LJ cut-off and shift flag
PotBranch(p, i) ==
    CASE p.kind \in CoreKinds -> IF InCore(i, p.sigma2) THEN "core" ELSE "tail"
      [] p.kind = "LennardJones" ->
            IF p.rcut2 = 0 THEN "full"
            ELSE IF 2 * i > p.rcut2 THEN "zero"
            ELSE IF p.shift THEN "shifted"
            ELSE IF 2 * i = p.rcut2 THEN "full_atcut"     \* value at r = rcut exactly: u(rcut) or 0, not fixed by the statement
            ELSE "full"
      [] p.kind = "WeeksChandlerAndersen" ->                \* r <= 2^(1/6) sigma  <=>  r^6 <= 2 sigma^6 (never equal: irrational)
            IF (2 * i) * (2 * i) * (2 * i) * (2 * i) * (2 * i) * (2 * i)
                 <= 2 * p.sigma2 * p.sigma2 * p.sigma2 * p.sigma2 * p.sigma2 * p.sigma2
            THEN "repulsive" ELSE "zero"

BranchTerm(p, b) == IF b = "full_atcut" THEN PotTerms[p.kind]["full"] ELSE PotTerms[p.kind][b]

\* exact instance: half units, eps = 3/2, alpha = 2, high = 10^6
ExactEnv(p, i) == [r |-> <<2 * i, 1>>, sigma |-> <<p.sigma2, 1>>, rcut |-> <<p.rcut2, 1>>,
                   eps |-> <<3, 2>>, alpha |-> <<2, 1>>, high |-> <<1000000, 1>>]
PotExact(p, i) == REval(BranchTerm(p, PotBranch(p, i)), ExactEnv(p, i))

\* ------------------------------------------------------------------ closures
ClosKinds == {"PercusYevick", "PY", "HyperNettedChain", "HNC", "MeanSphericalApproximation", "MSA",
              "MartynovSarkisov", "MS"}
Canon(k) == CASE k \in {"PercusYevick", "PY"} -> "PY"
              [] k \in {"HyperNettedChain", "HNC"} -> "HNC"
              [] k \in {"MeanSphericalApproximation", "MSA"} -> "MSA"
              [] k \in {"MartynovSarkisov", "MS"} -> "MS"
g_ == TV("gamma")
u_ == TV("u")

ClosRel ==
    [PY  |-> TMul(TSub(TExp(TNeg(u_)), TI(1)), TAdd(TI(1), g_)),
     HNC |-> TSub(TSub(TExp(TSub(g_, u_)), TI(1)), g_),
     MSA |-> TNeg(u_),
     \* Martynov-Sarkisov: g = exp(sqrt(1 + 2(gamma - u)) - 1)  (Yethiraj-Schweizer change of variables) ...
     MS  |-> TSub(TSub(TExp(TSub(TSqrt(TAdd(TI(1), TMul(TI(2), TSub(g_, u_)))), TI(1))), TI(1)), g_),
     \* ... or the original form g = exp(-u + sqrt(1 + 2 gamma) - 1); a faithful implementation of either is accepted
     MSalt |-> TSub(TSub(TExp(TSub(TSub(TSqrt(TAdd(TI(1), TMul(TI(2), g_))), TI(1)), u_)), TI(1)), g_)]
ClosCore == TSub(TI(-1), g_)

ClosBranch(c, i) == IF c.flag /\ InCore(i, c.sigma2) THEN "core" ELSE "rel"

\* ------------------------------------------------------------------ state
VARIABLES pot,     \* [kind, sigma2, rcut2, shift]
          dia,     \* <<dA, dB>> diameters of the pair's two sites (half units)
          clo,     \* [kind, flag, sigma2, pot]  (pot = "unset" or the name of a potential family)
          last
vars == <<pot, dia, clo, last>>

PotFamilies == {"hs", "finite", "zero"}     \* what the harness puts into closure.potential

\* ------------------------------------------------------------------ potential object machine
PInit == /\ pot \in [kind : PotKinds, sigma2 : {Unset} \cup Sigmas, rcut2 : {0}, shift : {FALSE}]
         /\ dia \in Diams \X Diams /\ (dia[1] + dia[2]) % 2 = 0
         /\ clo = [kind |-> "PY", flag |-> FALSE, sigma2 |-> Unset, pot |-> "unset"]
         /\ last = [act |-> "Init"]

PSetSigma(s) == /\ pot' = [pot EXCEPT !.sigma2 = s]
                /\ last' = [act |-> "SetSigma", sigma2 |-> s]
                /\ UNCHANGED <<dia, clo>>
\* what PRISM.__init__ does with a potential: only set sigma if it was not set directly
PWire == /\ pot' = [pot EXCEPT !.sigma2 = IF pot.sigma2 = Unset THEN (dia[1] + dia[2]) \div 2 ELSE pot.sigma2]
         /\ last' = [act |-> "Wire", dA |-> dia[1], dB |-> dia[2], sigma2 |-> pot'.sigma2]
         /\ UNCHANGED <<dia, clo>>
PSetCut(rc, sh) == /\ pot.kind = "LennardJones"
                   /\ pot' = [pot EXCEPT !.rcut2 = rc, !.shift = sh]
                   /\ last' = [act |-> "SetCut", rcut2 |-> rc, shift |-> sh]
                   /\ UNCHANGED <<dia, clo>>
PCalculate == /\ UNCHANGED <<pot, dia, clo>>          \* evaluation is pure
              /\ last' = IF pot.sigma2 = Unset
                         THEN [act |-> "Calculate", raises |-> "AssertionError"]
                         ELSE [act |-> "Calculate", raises |-> "none",
                               branch |-> [i \in Pts |-> PotBranch(pot, i)],
                               region |-> [i \in Pts |-> Region(i, pot.sigma2)],
                               exact  |-> [i \in Pts |-> PotExact(pot, i)]]
PNext == \/ \E s \in Sigmas : PSetSigma(s)
         \/ PWire
         \/ \E rc \in Cuts, sh \in BOOLEAN : PSetCut(rc, sh)
         \/ PCalculate

\* ------------------------------------------------------------------ closure object machine
CInit == /\ clo \in [kind : ClosKinds, flag : BOOLEAN, sigma2 : {Unset}, pot : {"unset"}]
         /\ pot = [kind |-> "HardSphere", sigma2 |-> Unset, rcut2 |-> 0, shift |-> FALSE]
         /\ dia = <<2, 2>>
         /\ last = [act |-> "Init"]
CSetPotential(f) == /\ clo' = [clo EXCEPT !.pot = f]
                    /\ last' = [act |-> "SetPotential", fam |-> f]
                    /\ UNCHANGED <<pot, dia>>
CSetSigma(s) == /\ clo' = [clo EXCEPT !.sigma2 = s]
                /\ last' = [act |-> "SetSigma", sigma2 |-> s]
                /\ UNCHANGED <<pot, dia>>
\* gamma families: names only; the harness generates the arrays
GammaFamilies == {"zero", "small", "large", "ramp"}
CCalculate(gf) ==
    /\ UNCHANGED <<pot, dia, clo>>                    \* pure: potential, sigma, flag and the inputs stay as they are
    /\ last' = IF clo.pot = "unset" THEN [act |-> "Calculate", gamma |-> gf, raises |-> "AssertionError"]
               ELSE IF clo.flag /\ clo.sigma2 = Unset THEN [act |-> "Calculate", gamma |-> gf, raises |-> "some"]
               ELSE [act |-> "Calculate", gamma |-> gf, raises |-> "none",
                     branch |-> [i \in Pts |-> ClosBranch(clo, i)]]
CNext == \/ \E f \in PotFamilies : CSetPotential(f)
         \/ \E s \in Sigmas : CSetSigma(s)
         \/ \E gf \in GammaFamilies : CCalculate(gf)

\* ------------------------------------------------------------------ statements about the potential definitions
ExactDefined(p, i) == IsDef(PotExact(p, i))

\* C10: the overlap value at every grid point AT OR INSIDE sigma, the tail strictly outside
CoreIsContactInclusive ==
    (pot.kind \in CoreKinds /\ pot.sigma2 # Unset) =>
        \A i \in Pts : /\ (Region(i, pot.sigma2) \in {"inside", "contact"}) <=> (PotBranch(pot, i) = "core")
                       /\ PotBranch(pot, i) = "core" => PotExact(pot, i) = <<1000000, 1>>
\* C10: exactly zero beyond the cut
LJZeroBeyondCut ==
    (pot.kind = "LennardJones" /\ pot.rcut2 # 0 /\ pot.sigma2 # Unset) =>
        \A i \in Pts : 2 * i > pot.rcut2 => PotExact(pot, i) = RZero
\* C10: continuous at the cut when shifted: the shifted branch evaluated AT r = rcut vanishes
LJShiftContinuous ==
    (pot.kind = "LennardJones" /\ pot.rcut2 # 0 /\ pot.shift /\ pot.sigma2 # Unset) =>
        LET v == REval(PotTerms["LennardJones"]["shifted"],
                       [r |-> <<pot.rcut2, 1>>, sigma |-> <<pot.sigma2, 1>>, rcut |-> <<pot.rcut2, 1>>, eps |-> <<3, 2>>])
        IN  IsDef(v) => v = RZero
\* C10: WCA is non-negative (eps > 0), zero beyond 2^(1/6) sigma and continuous there:
\*      with x = (sigma/r)^6 the repulsive branch is 4 eps (x^2 - x) + eps = eps (2x - 1)^2 >= 0, and = 0 at x = 1/2
WCAForm(x) == TAdd(TMul(TMul(TI(4), eps_), TSub(TPow(x, 2), x)), eps_)
WCAStatements ==
    /\ REval(WCAForm(TQ(<<1, 2>>)), [eps |-> <<3, 2>>]) = RZero
    /\ \A n \in 1 .. 12 : LET x == <<n, 4>>
                          IN  REval(WCAForm(TQ(x)), [eps |-> <<3, 2>>])
                                = RMul(<<3, 2>>, RPow(RSub(RMul(<<2, 1>>, x), ROne), 2))
    /\ (pot.kind = "WeeksChandlerAndersen" /\ pot.sigma2 # Unset) =>
          \A i \in Pts : IF PotBranch(pot, i) = "zero" THEN PotExact(pot, i) = RZero
                         ELSE (ExactDefined(pot, i) => RLeq(RZero, PotExact(pot, i)))
\* C10: an explicitly given sigma is used, otherwise the arithmetic mean of the two diameters (action property)
SigmaDefault ==
    [][last'.act = "Wire" => pot'.sigma2 = IF pot.sigma2 # Unset THEN pot.sigma2 ELSE (dia[1] + dia[2]) \div 2]_vars
\* evaluation never changes the object (repeatable)
CalculatePure == [][last'.act = "Calculate" => (pot' = pot /\ clo' = clo)]_vars

\* ------------------------------------------------------------------ statements about the closure definitions
Zero2 == [gamma |-> RZero, u |-> RZero]
AllRel == {"PY", "HNC", "MSA", "MS", "MSalt"}
\* C09: correlations can decay to zero: c(0, 0) = 0 ...
VanishAtZero == \A k \in AllRel : REval(ClosRel[k], Zero2) = RZero
\* ... and c = -u + second order: dc/du = -1, dc/dgamma = 0 at the origin
WeakCoupling == \A k \in AllRel : /\ REval(Diff(ClosRel[k], "u"), Zero2) = <<-1, 1>>
                                  /\ REval(Diff(ClosRel[k], "gamma"), Zero2) = RZero
GammaSamples == {<<-2, 1>>, RZero, <<1, 2>>, <<3, 1>>}
\* C03/C09: inside the core of a flagged closure c + gamma = -1 whatever the potential
CoreBranchValue == \A g \in GammaSamples : REval(TAdd(ClosCore, g_), [gamma |-> g]) = <<-1, 1>>
\* C03: PY and HNC give -1 - gamma on an overlap value WITHOUT the flag, because exp(-high/kT) underflows to 0
\*      (assumption made explicit: high/kT >= 746 + gamma); MSA and MS do not (documented)
UnflaggedOnOverlap ==
    \A g \in GammaSamples : \A kT \in {1, 1000} :
        LET env == [gamma |-> g, u |-> <<1000000 \div kT, 1>>]
        IN  /\ REval(ClosRel["PY"], env)  = RSub(<<-1, 1>>, g)
            /\ REval(ClosRel["HNC"], env) = RSub(<<-1, 1>>, g)
            /\ REval(ClosRel["MSA"], env) # RSub(<<-1, 1>>, g)
HardCorePair(ck, flag, pk) == flag \/ (pk \in CoreKinds /\ Canon(ck) \in {"PY", "HNC"})
\* C03: the composition potential -> closure at a core point, for every hard-core pair
HardCoreValue ==
    \A ck \in {"PY", "HNC", "MSA", "MS"}, flag \in BOOLEAN, pk \in CoreKinds, g \in GammaSamples :
        HardCorePair(ck, flag, pk) =>
            LET c == IF flag THEN ClosCore
                     ELSE Subst(ClosRel[ck], "u", TDiv(PotTerms[pk]["core"], TV("kT")))
            IN  REval(c, [gamma |-> g, high |-> <<1000000, 1>>, kT |-> <<2, 1>>]) = RSub(<<-1, 1>>, g)
\* C09: a flagged closure applies the relation strictly outside sigma only; unflagged everywhere
ClosureBranches ==
    \A i \in Pts : ClosBranch(clo, i) = "core" <=> (clo.flag /\ Region(i, clo.sigma2) # "outside")
=============================================================================
