------------------------------ MODULE HardCore ------------------------------
(***************************************************************************)
(* Property C03: hard-core exclusion through the whole pipeline.           *)
(*                                                                         *)
(* A configuration assigns to each of the three site pairs of a two-       *)
(* component system a closure (with or without the hard-core flag) and a   *)
(* potential, and to the two sites a diameter (half units of dr).  The     *)
(* statement: for every pair that HAS a hard core (flag set, or a          *)
(* hard-core potential closed with PY / HNC) the closure output satisfies  *)
(* c = -1 - gamma at every grid point with r <= sigma_pair, at EVERY       *)
(* evaluation of the cost function, whatever the other pairs, densities,   *)
(* omegas and the trial gamma are; and g = fun/r there in a solved object. *)
(*                                                                         *)
(* TLC enumerates every valid configuration, decides per pair whether it   *)
(* has a hard core and how many grid points its core has, and checks on    *)
(* the definitions (ClosureDefs) that the composed term potential ->       *)
(* closure reduces to -1 - gamma there (CoreValueHolds).  The harness      *)
(* builds each exported configuration as a real System, calls the real     *)
(* PRISM.cost with seeded trial vectors and compares.                      *)
(***************************************************************************)
EXTENDS ClosureDefs

CONSTANTS DiamPairs,   \* set of <<dA, dB>> in half units (sums even)
          PotSigmas,   \* how the potentials get their contact distance: "default" (from the diameters), or an
                       \* explicit sigma "smaller" / "larger" than the mean of the diameters
          KTs,         \* thermal energies
          Stride       \* every Stride-th configuration is exported for replay (all are checked by TLC)

Pairs   == {"AA", "AB", "BB"}
XPots   == {"HardSphere", "Exponential", "HardCoreLennardJones", "LennardJones"}
XClos   == {"PY", "HNC", "MSA", "MS"}
PairCfg == [clos : XClos, flag : BOOLEAN, pot : XPots]
\* MSA and MS are documented not to work on divergent potentials without the flag
Valid(p) == ~(p.clos \in {"MSA", "MS"} /\ ~p.flag /\ p.pot \in CoreKinds)
HasCore(p) == HardCorePair(p.clos, p.flag, p.pot)

VARIABLES xcfg,    \* [pairs : [Pairs -> PairCfg], dia : <<dA, dB>>, kT, psig]
          last
xvars == <<xcfg, last>>

\* contact distance the CLOSURE of a pair works with: always the mean of the two diameters
DiamSigma2(c, pr) == CASE pr = "AA" -> c.dia[1]
                       [] pr = "BB" -> c.dia[2]
                       [] pr = "AB" -> (c.dia[1] + c.dia[2]) \div 2
\* contact distance of the pair's POTENTIAL: an explicitly given sigma wins over the diameters
PotSigma2(c, pr) == CASE c.psig = "default" -> DiamSigma2(c, pr)
                      [] c.psig = "smaller" -> DiamSigma2(c, pr) - 3
                      [] c.psig = "larger"  -> DiamSigma2(c, pr) + 4
Max2(a, b) == IF a < b THEN b ELSE a
\* extent of the core of a hard-core pair: the flag excludes r <= mean diameter whatever the potential says; an
\* overlap value under PY / HNC excludes r <= sigma of the potential
Sigma2(c, pr) ==
    LET p == c.pairs[pr]
        byPot == p.pot \in CoreKinds /\ p.clos \in {"PY", "HNC"}
    IN  IF p.flag THEN (IF byPot THEN Max2(DiamSigma2(c, pr), PotSigma2(c, pr)) ELSE DiamSigma2(c, pr))
        ELSE PotSigma2(c, pr)
NCore(c, pr) == Cardinality({i \in Pts : InCore(i, Sigma2(c, pr))})

XInit == /\ xcfg \in [pairs : [Pairs -> {p \in PairCfg : Valid(p)}], dia : DiamPairs, kT : KTs, psig : PotSigmas]
         /\ ~(\A pr \in Pairs : ~HasCore(xcfg.pairs[pr]))
         /\ last = [act |-> "Init"]

\* one evaluation of the self-consistency function with a trial vector of the named family
Cost(gf) == /\ UNCHANGED xcfg
            /\ last' = [act |-> "Cost", gamma |-> gf,
                        hard  |-> [pr \in Pairs |-> HasCore(xcfg.pairs[pr])],
                        sigma2 |-> [pr \in Pairs |-> Sigma2(xcfg, pr)],
                        potsigma2 |-> [pr \in Pairs |-> IF xcfg.psig = "default" THEN 0 ELSE PotSigma2(xcfg, pr)],
                        ncore |-> [pr \in Pairs |-> NCore(xcfg, pr)]]
XNext == \E gf \in {"zero", "small", "large", "huge"} : Cost(gf)     \* huge: |gamma| up to 2000 (gamma(0) of a large particle in a dense melt is ~1000)

\* the composed term of a pair at a core point: closure branch with u := potential core branch / kT
CoreTerm(p) == IF p.flag THEN ClosCore
               ELSE Subst(ClosRel[p.clos], "u", TDiv(PotTerms[p.pot]["core"], TV("kT")))
\* checked once for every pair configuration (constant-level: it does not depend on the rest of the configuration -
\* which is the content of "no choice of the other pairs ... can put probability inside a core")
CoreValueHoldsFor(p, kT) ==
    HasCore(p) => \A g \in GammaSamples :
        REval(CoreTerm(p), [gamma |-> g, high |-> <<1000000, 1>>, kT |-> <<kT, 1>>]) = RSub(<<-1, 1>>, g)
ASSUME CoreValueHoldsAll == \A p \in PairCfg, kT \in KTs : Valid(p) => CoreValueHoldsFor(p, kT)
\* and in every configuration every hard-core pair is one of those
CoreValueHolds == \A pr \in Pairs : Valid(xcfg.pairs[pr]) /\ xcfg.kT \in KTs
\* a pair without a hard core has no core points to speak of; a pair with one has them exactly up to contact
CoreExtent ==
    \A pr \in Pairs : NCore(xcfg, pr) = (IF Sigma2(xcfg, pr) \div 2 < L THEN Sigma2(xcfg, pr) \div 2 ELSE L)

\* deterministic sampling for the replay
Code(p) == (CASE p.clos = "PY" -> 0 [] p.clos = "HNC" -> 1 [] p.clos = "MSA" -> 2 [] p.clos = "MS" -> 3) * 8
           + (IF p.flag THEN 4 ELSE 0)
           + (CASE p.pot = "HardSphere" -> 0 [] p.pot = "Exponential" -> 1 [] p.pot = "HardCoreLennardJones" -> 2 [] p.pot = "LennardJones" -> 3)
Hash(c) == Code(c.pairs["AA"]) * 1024 + Code(c.pairs["AB"]) * 32 + Code(c.pairs["BB"]) + c.dia[1] * 7 + c.dia[2] * 13 + c.kT * 5
           + (CASE c.psig = "default" -> 0 [] c.psig = "smaller" -> 3 [] c.psig = "larger" -> 11)
Sampled == Hash(xcfg) % Stride = 0
=============================================================================
