---------------------------- MODULE MC_PrismSolve ----------------------------
EXTENDS PrismSolve, Json
St      == [cfg |-> cfg, solved |-> solved]
StPrime == [cfg |-> cfg', solved |-> solved']
MCInit == Init /\ PrintT(<<"INIT", ToJson(St)>>)
View   == <<cfg, solved>>
Edge   == PrintT(<<"EDGE", ToJson([from |-> St, to |-> StPrime, l |-> last'])>>)
NoEdge == TRUE
=============================================================================
