"""Concrete pyPRISM Systems used by the solve-based checks (C01, C03, C04, C06, C16).

A system is described by a plain dict (JSON-able, so it can sit in replay files):
  {'types': [...], 'kT': 1.0, 'dr': 0.125, 'length': 256,
   'rho': {t: value}, 'diam': {t: value},
   'pot':   {'A-B': ['HardSphere'] | ['Exponential', eps, alpha] | ['LennardJones', eps] | ...},
   'clo':   {'A-B': ['PY'] | ['HNC'] | ['MSA', True] | ...},
   'omega': {'A-B': ['SingleSite'] | ['NoIntra'] | ['Gaussian', sigma, N] | ['FJC', N, l] | ['Ring', sigma, N]}}
Pairs are keyed 'a-b' with a before b in the type list.  Grids are dyadic (dr = 1/8, 1/16) so that
diameters sit exactly on grid points (no floating-point contact ambiguity)."""
import itertools

import numpy as np


def pairs(types):
    return [(a, b) for i, a in enumerate(types) for b in types[i:]]


def make_potential(spec):
    """a trailing dict in the spec gives keyword arguments (e.g. an explicit sigma)"""
    import pyPRISM
    kw = {}
    if isinstance(spec[-1], dict):
        kw = spec[-1]
        spec = spec[:-1]
    k = spec[0]
    U = _make_potential(spec)
    for name, val in kw.items():
        setattr(U, name, val)
    return U


def _make_potential(spec):
    import pyPRISM
    k = spec[0]
    if k == 'HardSphere':
        return pyPRISM.potential.HardSphere()
    if k == 'Exponential':
        return pyPRISM.potential.Exponential(epsilon=spec[1], alpha=spec[2])
    if k == 'LennardJones':
        return pyPRISM.potential.LennardJones(epsilon=spec[1], rcut=spec[2] if len(spec) > 2 else None,
                                              shift=spec[3] if len(spec) > 3 else False)
    if k == 'HardCoreLennardJones':
        return pyPRISM.potential.HardCoreLennardJones(epsilon=spec[1])
    if k == 'WCA':
        return pyPRISM.potential.WeeksChandlerAndersen(epsilon=spec[1])
    raise ValueError(k)


def make_closure(spec):
    import pyPRISM
    k = spec[0]
    hc = spec[1] if len(spec) > 1 else False
    import warnings
    with warnings.catch_warnings():
        warnings.simplefilter('ignore')
        return {'PY': pyPRISM.closure.PercusYevick, 'HNC': pyPRISM.closure.HyperNettedChain,
                'MSA': pyPRISM.closure.MeanSphericalApproximation, 'MS': pyPRISM.closure.MartynovSarkisov}[k](apply_hard_core=hc)


def make_omega(spec, k=None):
    import pyPRISM
    n = spec[0]
    if n == 'SingleSite':
        return pyPRISM.omega.SingleSite()
    if n == 'NoIntra':
        return pyPRISM.omega.NoIntra()
    if n == 'Gaussian':
        return pyPRISM.omega.Gaussian(sigma=spec[1], length=spec[2])
    if n == 'FJC':
        return pyPRISM.omega.FreelyJointedChain(length=spec[1], l=spec[2])
    if n == 'Ring':
        return pyPRISM.omega.GaussianRing(sigma=spec[1], length=spec[2])
    if n == 'Diblock':      # exact block omegas of a Gaussian A_nA B_nB chain: ['Diblock', 'AA'|'AB'|'BB', sigma, nA, nB]
        return pyPRISM.omega.FromArray(diblock_omega(k, spec[1], spec[2], spec[3], spec[4]))
    if n == 'Array':        # explicit values on the domain's k grid
        return pyPRISM.omega.FromArray(np.array(spec[1], dtype=float))
    raise ValueError(n)


def diblock_omega(k, block, sigma, nA, nB):
    """pair sums of a Gaussian chain of nA sites of type A followed by nB of type B, in pyPRISM's
    normalisation: omega_aa = (1/N_a) sum_{i,j in a} E^|i-j|,  omega_ab = (1/(N_a+N_b)) sum_{i in a, j in b} E^|i-j|"""
    E = np.exp(-k * k * sigma * sigma / 6.0)
    A = list(range(nA))
    B = list(range(nA, nA + nB))
    I, J, norm = {'AA': (A, A, nA), 'BB': (B, B, nB), 'AB': (A, B, nA + nB)}[block]
    out = np.zeros_like(k)
    for i in I:
        for j in J:
            out += E ** abs(i - j)
    return out / norm


def _num(x, style):
    """the same number as a float, a numpy scalar or (when integral) a Python int - users type all three"""
    if style == 'np':
        return np.float64(x)
    if style == 'int' and float(x) == int(x):
        return int(x)
    return x


def build(cfg):
    """cfg['reuse']: the System is one that was used before - it was first completed with smaller diameters and other
    densities, a PRISM object was created from it, and only then it got the values of cfg (a parameter sweep on ONE System)"""
    if cfg.get('reuse'):
        import warnings
        first = dict(cfg, reuse=False, rho={t: 0.9 * float(v) for t, v in cfg['rho'].items()},
                     diam={t: float(v) - 2.0 * cfg['dr'] for t, v in cfg['diam'].items()})
        s = build(first)
        with warnings.catch_warnings():
            warnings.simplefilter('ignore')
            s.createPRISM()
        ns = cfg.get('num_style', 'float')
        for t in cfg.get('assign_order', list(cfg['types'])):
            s.density[t] = _num(cfg['rho'][t], ns)
            s.diameter[t] = _num(cfg['diam'][t], ns)
        for key, val in (cfg.get('sigma_override') or {}).items():      # assigning a diameter recomputes the contact distances
            a, b = key.split('-')
            s.diameter.sigma[a, b] = val
        return s
    return _build(cfg)


def _orient(cfg):
    """pair dictionaries keyed 'a-b' in either orientation -> keyed with a before b in the type list"""
    T = list(cfg['types'])
    out = dict(cfg)
    for name in ('pot', 'clo', 'omega'):
        d = {}
        for a, b in pairs(T):
            k1, k2 = '%s-%s' % (a, b), '%s-%s' % (b, a)
            d[k1] = cfg[name][k1] if k1 in cfg[name] else cfg[name][k2]
        out[name] = d
    return out


def _build(cfg):
    import pyPRISM
    cfg = _orient(cfg)
    T = list(cfg['types'])
    ns = cfg.get('num_style', 'float')
    cfg = dict(cfg, kT=_num(cfg['kT'], ns), rho={t: _num(v, ns) for t, v in cfg['rho'].items()},
               diam={t: _num(v, ns) for t, v in cfg['diam'].items()})
    s = pyPRISM.System(T, kT=cfg['kT'])
    # the same grid, reached the ways users reach it: directly, from dk, or through the setters of an existing Domain
    idiom = cfg.get('domain_idiom', 'direct')
    n, dr = cfg['length'], cfg['dr']
    if idiom == 'setter':
        s.domain = pyPRISM.Domain(length=n, dr=dr * 1.25)
        s.domain.dr = dr
    elif idiom == 'dk':
        import math
        s.domain = pyPRISM.Domain(length=n, dk=math.pi / (dr * n))
        s.domain.dr = dr                 # (re-assert the spacing exactly: pi/(pi/(dr n) n) may differ from dr in the last bit)
    elif idiom == 'length':
        s.domain = pyPRISM.Domain(length=max(n // 2, 2), dr=dr)
        s.domain.length = n
    else:
        s.domain = pyPRISM.Domain(length=n, dr=dr)
    # the order of the user's assignment statements is independent of the order of the type list
    if cfg.get('diam_idiom') == 'sweep':
        # a size-ratio sweep on a re-used System: every diameter first gets a common value, then its own
        s.diameter[T] = 1.0
    for t in cfg.get('assign_order', T):
        s.density[t] = cfg['rho'][t]
        s.diameter[t] = cfg['diam'][t]
    for key, val in (cfg.get('sigma_override') or {}).items():
        a, b = key.split('-')
        s.diameter.sigma[a, b] = val
    if cfg.get('assign') == 'group':
        # the way the tutorials fill the tables: one object assigned to ALL pairs at once, then the pairs that
        # differ are overridden one by one
        import json
        for table, maker in ((s.potential, make_potential), (s.closure, make_closure)):
            name = 'pot' if table is s.potential else 'clo'
            specs = [json.dumps(cfg[name]['%s-%s' % (a, b)]) for a, b in pairs(T)]
            common = max(sorted(set(specs)), key=specs.count)
            table[T, T] = maker(json.loads(common))
            for a, b in pairs(T):
                if json.dumps(cfg[name]['%s-%s' % (a, b)]) != common:
                    table[a, b] = maker(cfg[name]['%s-%s' % (a, b)])
        for a, b in pairs(T):
            s.omega[a, b] = make_omega(cfg['omega']['%s-%s' % (a, b)], s.domain.k)
        return s
    if cfg.get('assign') == 'edit':
        # one object assigned to all pairs, then the pairs that differ are EDITED in place through the table (the object is
        # fetched with the pair key written in reverse-alphabetical order - the user's script does not depend on the order of
        # the type list - and its attributes are changed); a pair of another class is assigned
        import json
        for table, maker in ((s.potential, make_potential), (s.closure, make_closure)):
            name = 'pot' if table is s.potential else 'clo'
            specs = [json.dumps(cfg[name]['%s-%s' % (a, b)]) for a, b in pairs(T)]
            common = max(sorted(set(specs)), key=specs.count)
            table[T, T] = maker(json.loads(common))
            for a, b in pairs(T):
                spec = cfg[name]['%s-%s' % (a, b)]
                if json.dumps(spec) == common:
                    continue
                want = maker(spec)
                x, y = (a, b) if a >= b else (b, a)
                have = table[x, y]
                if type(have) is type(want):
                    for attr, val in vars(want).items():
                        setattr(have, attr, val)
                else:
                    table[x, y] = want
        for a, b in pairs(T):
            s.omega[a, b] = make_omega(cfg['omega']['%s-%s' % (a, b)], s.domain.k)
        return s
    if cfg.get('assign') == 'setunset':
        # the other tutorial idiom: the pairs that differ are assigned first, table.setUnset(default) fills the rest
        import json
        for table, maker in ((s.potential, make_potential), (s.closure, make_closure)):
            name = 'pot' if table is s.potential else 'clo'
            specs = [json.dumps(cfg[name]['%s-%s' % (a, b)]) for a, b in pairs(T)]
            common = max(sorted(set(specs)), key=specs.count)
            for a, b in pairs(T):
                if json.dumps(cfg[name]['%s-%s' % (a, b)]) != common:
                    table[a, b] = maker(cfg[name]['%s-%s' % (a, b)])
            table.setUnset(maker(json.loads(common)))
        for a, b in pairs(T):
            s.omega[a, b] = make_omega(cfg['omega']['%s-%s' % (a, b)], s.domain.k)
        return s
    for a, b in pairs(T):
        key = '%s-%s' % (a, b)
        s.potential[a, b] = make_potential(cfg['pot'][key])
        s.closure[a, b] = make_closure(cfg['clo'][key])
        s.omega[a, b] = make_omega(cfg['omega'][key], s.domain.k)
    return s


def solve(cfg, method='krylov', guess=None, maxiter=None):
    import warnings
    s = build(cfg)
    p = s.createPRISM()
    opts = {'disp': False}
    if maxiter:
        opts['maxiter'] = maxiter
    with warnings.catch_warnings():
        warnings.simplefilter('ignore')
        res = p.solve(guess=guess, method=method, options=opts)
    return s, p, res


SYS2 = {'types': ['B', 'A'], 'kT': 1.0, 'dr': 0.125, 'length': 256,
        'rho': {'A': 0.35, 'B': 0.2}, 'diam': {'A': 1.0, 'B': 1.0},
        'pot': {'A-A': ['HardSphere'], 'A-B': ['Exponential', 0.25, 0.5], 'B-B': ['HardSphere']},
        'clo': {'A-A': ['PY'], 'A-B': ['PY'], 'B-B': ['HNC']},
        'omega': {'A-A': ['Gaussian', 1.0, 8], 'A-B': ['NoIntra'], 'B-B': ['SingleSite']}}

SYS3 = {'types': ['B', 'C', 'A'], 'kT': 1.25, 'dr': 0.125, 'length': 256,
        'rho': {'A': 0.25, 'B': 0.15, 'C': 0.02}, 'diam': {'A': 1.0, 'B': 1.0, 'C': 2.0},
        'pot': {'A-A': ['HardSphere'], 'A-B': ['HardSphere'], 'A-C': ['Exponential', 0.5, 0.5],
                'B-B': ['HardSphere'], 'B-C': ['HardSphere'], 'C-C': ['HardSphere']},
        'clo': {'A-A': ['PY'], 'A-B': ['PY'], 'A-C': ['PY'], 'B-B': ['PY'], 'B-C': ['HNC'], 'C-C': ['HNC']},
        'omega': {'A-A': ['FJC', 6, 1.0], 'A-B': ['NoIntra'], 'A-C': ['NoIntra'],
                  'B-B': ['Gaussian', 1.0, 4], 'B-C': ['NoIntra'], 'C-C': ['SingleSite']}}

# diblock copolymer-like: non-zero off-diagonal omega
SYS2D = {'types': ['A', 'B'], 'kT': 1.0, 'dr': 0.125, 'length': 256,
         'rho': {'A': 0.3, 'B': 0.3}, 'diam': {'A': 1.0, 'B': 1.0},
         'pot': {'A-A': ['HardSphere'], 'A-B': ['HardSphere'], 'B-B': ['HardSphere']},
         'clo': {'A-A': ['PY'], 'A-B': ['PY'], 'B-B': ['PY']},
         'omega': {'A-A': ['Diblock', 'AA', 1.0, 2, 2], 'A-B': ['Diblock', 'AB', 1.0, 2, 2], 'B-B': ['Diblock', 'BB', 1.0, 2, 2]}}
