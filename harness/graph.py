"""Spec -> code conformance: walk the labelled state graph TLC exported and drive the real
pyPRISM objects along it.

TLC prints one EDGE record per generated transition (ACTION_CONSTRAINT of the MC module):
{"from": <abstract state>, "to": <abstract state>, "l": <label: act, args, expected obs>}
and one INIT record per initial state.  An Adapter maps labels to real calls and real
objects back to abstract states (the projection function of DESIGN.md 2.1).
"""
import json
import random


def key_of(state):
    return json.dumps(state, sort_keys=True, separators=(',', ':'))


class Graph(object):
    def __init__(self, edges, inits=None):
        self.state = {}
        self.out = {}
        self.n_edges = 0
        tos = set()
        for e in edges:
            fk, tk = key_of(e['from']), key_of(e['to'])
            self.state.setdefault(fk, e['from'])
            self.state.setdefault(tk, e['to'])
            lk = key_of(e['l'])
            outs = self.out.setdefault(fk, {})
            if (lk, tk) not in outs:
                outs[(lk, tk)] = e['l']
                self.n_edges += 1
            tos.add(tk)
        if inits:
            self.inits = [key_of(s) for s in inits]
            for s in inits:
                self.state.setdefault(key_of(s), s)
        else:
            self.inits = [k for k in self.state if k not in tos]
        self.out_list = {k: [(lab, tk) for (lk, tk), lab in sorted(v.items())] for k, v in self.out.items()}

    def edges_from(self, k):
        return self.out_list.get(k, [])


class Adapter(object):
    """Binding between one specification module and the real objects."""
    module = '?'

    def new(self, state):            # real object(s) for an initial abstract state
        raise NotImplementedError

    def clone(self, world):
        import copy
        return copy.deepcopy(world)

    def step(self, world, label):    # perform the real call; return the observation
        raise NotImplementedError

    def project(self, world):        # abstract state of the real object(s)
        raise NotImplementedError

    def diff_state(self, want, got):
        """list of (clause, detail) for every disagreement between abstract states"""
        out = []
        for k in want:
            if k not in got:
                continue
            if want[k] != got[k]:
                out.append(('State.' + k, {'expected': want[k], 'observed': got[k]}))
        return out

    def diff_obs(self, label, obs):
        out = []
        for k, v in label.items():
            if k in obs and obs[k] != v:
                out.append(('Obs.' + k, {'expected': v, 'observed': obs[k]}))
        return out


class Walker(object):
    def __init__(self, ctx, graph, adapter, family):
        self.ctx = ctx
        self.g = graph
        self.a = adapter
        self.family = family
        self.failed = set()      # (action, clause) already reported
        self.dups = 0
        self.steps = 0
        self.edges_covered = set()
        self.skipped = 0

    def _do(self, world, hist, label, to_key):
        """returns True iff the real object followed the edge"""
        self.steps += 1
        try:
            obs = self.a.step(world, label)
        except Exception as ex:  # the adapter catches what the spec expects; anything else is a finding
            obs = {'_unexpected': '%s: %s' % (type(ex).__name__, ex)}
        bad = []
        if obs.get('_skip'):
            self.skipped += 1      # the concretisation leaves the modelled domain here (not judged)
            return False
        if '_unexpected' in obs:
            bad.append(('NoUnexpectedException', {'observed': obs['_unexpected']}))
        else:
            bad += self.a.diff_obs(label, obs)
            bad += self.a.diff_state(self.g.state[to_key], self.a.project(world))
        if not bad:
            return True
        self._report(bad, label, hist)
        return False

    def _report(self, bad, label, hist):
        for clause, detail in bad:
            k = (label.get('act'), clause)
            if k in self.failed:
                self.dups += 1
                continue
            self.failed.add(k)
            rec = {'family': self.family, 'module': self.a.module, 'action': label.get('act'),
                   'label': label, 'history': hist + [label], 'step': len(hist) + 1,
                   'detail': clause}
            rec.update(detail)
            self.ctx.violation(clause, rec)

    def cover_edges(self, stutter=False):
        """every edge of the graph once, from the state reached along a BFS tree path.

        stutter: a self-loop of the graph is an action that leaves the ABSTRACT state unchanged (an evaluation, a check, an
        iteration) - exactly the calls after which an implementation may keep something (a cache, a memo).  No shortest-path
        or bounded-depth enumeration orders such a call before a state-changing one by itself, so with stutter=True every
        state-changing edge is executed a second time on a world on which one of the state's self-loops (rotating) was
        executed first; both steps are judged like any other."""
        self.stuttered = getattr(self, 'stuttered', 0)
        turn = 0
        for ik in self.g.inits:
            seen = {ik}
            frontier = [(ik, self.a.new(self.g.state[ik]), [])]
            while frontier:
                nxt = []
                for k, world, hist in frontier:
                    outs = self.g.edges_from(k)
                    loops = [(l, t) for l, t in outs if t == k] if stutter else []
                    for label, tk in outs:
                        w = self.a.clone(world)
                        ok = self._do(w, hist, label, tk)
                        self.edges_covered.add((k, key_of(label), tk))
                        self.ctx.count(('edge', self.a.module, k, key_of(label)))
                        if ok and tk not in seen:
                            seen.add(tk)
                            nxt.append((tk, w, hist + [label]))
                        if loops and tk != k:
                            loop = loops[turn % len(loops)][0]
                            turn += 1
                            w2 = self.a.clone(world)
                            if self._do(w2, hist, loop, k):
                                self._do(w2, hist + [loop], label, tk)
                                self.stuttered += 1
                frontier = nxt
        return len(self.edges_covered)

    def all_paths(self, depth, budget=None):
        """every path of length <= depth from every initial state (DFS with snapshots)"""
        n_paths = 0
        for ik in self.g.inits:
            stack = [(ik, self.a.new(self.g.state[ik]), [])]
            while stack:
                k, world, hist = stack.pop()
                if len(hist) >= depth:
                    n_paths += 1
                    continue
                outs = self.g.edges_from(k)
                if not outs:
                    n_paths += 1
                for label, tk in outs:
                    if budget is not None and self.steps >= budget:
                        self.ctx.traces += n_paths
                        return n_paths, False
                    w = self.a.clone(world)
                    if self._do(w, hist, label, tk):
                        stack.append((tk, w, hist + [label]))
        self.ctx.traces += n_paths
        return n_paths, True

    def random_walks(self, n, depth, seed):
        rng = random.Random(seed)
        done = 0
        for _ in range(n):
            ik = rng.choice(self.g.inits)
            world = self.a.new(self.g.state[ik])
            k, hist = ik, []
            for _s in range(depth):
                outs = self.g.edges_from(k)
                if not outs:
                    break
                label, tk = rng.choice(outs)
                if not self._do(world, hist, label, tk):
                    break
                hist.append(label)
                k = tk
            done += 1
            if done <= 2:
                self.ctx.sample({'random_walk': [l.get('act') for l in hist]})
        self.ctx.traces += done
        return done


def blind_walks(walker, n, depth, seed):
    """Random walks on which NOTHING is observed before the end: every step is executed (return values judged), but the real object
    is projected - i.e. read - only after the last one.  A replay that inspects the object after every step would trigger, and so
    hide, anything an implementation evaluates lazily on access (dirty flags, deferred copies, deferred fills): the observer effect
    that hid the seeded change C07_k."""
    rng = random.Random(seed + 7919)
    g, a, ctx = walker.g, walker.a, walker.ctx
    done = 0
    a.blind = True          # adapters that probe the object inside step() consult this flag and refrain
    try:
        done = _blind(walker, n, depth, rng)
    finally:
        a.blind = False
    ctx.traces += done
    return done


def _blind(walker, n, depth, rng):
    g, a, ctx = walker.g, walker.a, walker.ctx
    done = 0
    for _ in range(n):
        ik = rng.choice(g.inits)
        world = a.new(g.state[ik])
        k, hist, ok = ik, [], True
        for _s in range(rng.randint(2, depth)):
            outs = [(l, t) for l, t in g.edges_from(k) if t != k] or g.edges_from(k)      # state-changing steps first
            if not outs:
                break
            label, tk = rng.choice(outs)
            walker.steps += 1
            try:
                obs = a.step(world, label)
            except Exception as ex:
                obs = {'_unexpected': '%s: %s' % (type(ex).__name__, ex)}
            if obs.get('_skip'):
                ok = False
                break
            bad = [('NoUnexpectedException', {'observed': obs['_unexpected']})] if '_unexpected' in obs else a.diff_obs(label, obs)
            hist.append(label)
            k = tk
            if bad:
                walker._report(bad, label, hist[:-1])
                ok = False
                break
        if ok and hist:
            bad = a.diff_state(g.state[k], a.project(world))
            if bad:
                walker._report([(c + '.unobserved', d) for c, d in bad], hist[-1], hist[:-1])
        done += 1
    return done


class NondetWalker(object):
    """Replay for specifications whose actions are nondeterministic (the property leaves part of
    the post-state open): sequences of LABELS are enumerated; after each real call the projected
    state of the real object selects the successor among the edges carrying that label.  No
    matching successor = the real object left the behaviours of the specification."""

    def __init__(self, ctx, graph, adapter, family):
        self.ctx, self.g, self.a, self.family = ctx, graph, adapter, family
        self.failed = set()
        self.dups = 0
        self.steps = 0
        self.edges_hit = set()
        self.by_label = {}
        for k, outs in graph.out_list.items():
            d = {}
            for label, tk in outs:
                d.setdefault(key_of(label), (label, []))[1].append(tk)
            self.by_label[k] = [d[x] for x in sorted(d)]

    def _do(self, world, k, hist, label, cands):
        self.steps += 1
        try:
            obs = self.a.step(world, label)
        except Exception as ex:
            obs = {'_unexpected': '%s: %s' % (type(ex).__name__, ex)}
        bad = []
        nk = None
        if obs.get('_skip'):
            return None
        if '_unexpected' in obs:
            bad.append(('NoUnexpectedException', {'observed': obs['_unexpected']}))
        else:
            bad += self.a.diff_obs(label, obs)
            proj, problems = self.a.project_checked(world)
            bad += problems
            if not problems:
                pk = key_of(proj)
                if pk in cands:
                    nk = pk
                else:
                    bad.append(('NoSuchSuccessor', {'observed_state': proj, 'allowed': [self.g.state[c] for c in cands]}))
        if not bad:
            self.edges_hit.add((k, key_of(label), nk))
            return nk
        for clause, detail in bad:
            fk = (label.get('act'), label.get('fn'), clause, detail.get('array'))
            if fk in self.failed:
                self.dups += 1
                continue
            self.failed.add(fk)
            rec = {'family': self.family, 'module': self.a.module, 'action': label.get('fn') or label.get('act'),
                   'label': label, 'history': hist + [label], 'step': len(hist) + 1, 'detail': clause}
            rec.update(detail)
            self.ctx.violation(clause, rec)
        return None

    def all_label_paths(self, depth, budget=None):
        n_paths = 0
        complete = True
        for ik in self.g.inits:
            stack = [(ik, self.a.new(self.g.state[ik]), [])]
            while stack:
                k, world, hist = stack.pop()
                opts = self.by_label.get(k, [])
                if len(hist) >= depth or not opts:
                    n_paths += 1
                    continue
                for label, cands in opts:
                    if budget is not None and self.steps >= budget:
                        complete = False
                        stack = []
                        break
                    w = self.a.clone(world)
                    nk = self._do(w, k, hist, label, cands)
                    self.ctx.count((self.family, k, key_of(label)))
                    if nk is not None:
                        stack.append((nk, w, hist + [label]))
                    else:
                        n_paths += 1
        self.ctx.traces += n_paths
        return n_paths, complete

    def random_label_walks(self, n, depth, seed):
        rng = random.Random(seed)
        done = 0
        for _ in range(n):
            ik = rng.choice(self.g.inits)
            world = self.a.new(self.g.state[ik])
            k, hist = ik, []
            for _s in range(depth):
                opts = self.by_label.get(k, [])
                if not opts:
                    break
                label, cands = rng.choice(opts)
                nk = self._do(world, k, hist, label, cands)
                self.ctx.count((self.family, k, key_of(label)))
                if nk is None:
                    break
                hist.append(label)
                k = nk
            done += 1
            if done <= 2:
                self.ctx.sample({'random_walk': [(l.get('fn') or l.get('act')) + ':' + str(l.get('arg', l.get('array', ''))) for l in hist]})
        self.ctx.traces += done
        return done
