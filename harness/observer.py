"""Observer for pyPRISM/_verif_trace.py (PYPRISM_VERIF_OBSERVER=harness.observer).

Computes the *projection* of the real objects to the abstract state of the specification
(DESIGN.md 2.1) for every hooked public call.  All numbers written are integers < 2^31
(TLC's Json module mangles larger ones).  Nothing here judges anything: verdicts are TLC's,
on spec/Trace_*.tla.
"""
import math
import numbers

import numpy as np

_KEEP = []          # strong references so that id() values are never reused
_TOK = {}           # id(object) -> token (values stored in tables)
_OID = {}           # id(object) -> small object id (tables, domains, systems, ...)
INT_MAX = 2 ** 31 - 1

_ATOM = (numbers.Number, str, bytes, type(None), bool, np.generic)


def tok(o):
    if o is None:
        return 0
    k = id(o)
    if k not in _TOK:
        _KEEP.append(o)
        _TOK[k] = len(_TOK) + 1
    return _TOK[k]


def oid(o):
    k = id(o)
    if k not in _OID:
        _KEEP.append(o)
        _OID[k] = len(_OID) + 1
    return _OID[k]


def mutability(v):
    """1 mutable (deepcopy must produce a new object), 0 atomic (deepcopy returns the same
    object), 2 undetermined (tuples, frozensets: identity not constrained)"""
    if isinstance(v, _ATOM):
        return 0
    if isinstance(v, (tuple, frozenset)):
        return 2
    return 1


def fp(v):
    """content fingerprint: 0 None, 1 opaque (no cheap content identity), >= 2 atomic number
    (micro-units)"""
    if v is None:
        return 0
    if isinstance(v, (bool, str, bytes)):
        return 1
    if isinstance(v, (numbers.Real, np.floating, np.integer)):
        f = float(v)
        if math.isfinite(f) and abs(f) < 2000:
            return int(round(f * 1e6)) % (INT_MAX - 2) + 2
    return 1


def scaled(v, unit, limit):
    """(int, exact?) representation of v in multiples of `unit`"""
    if v is None:
        return 0, True
    try:
        f = float(v)
    except (TypeError, ValueError):
        return 0, False
    q = f / unit
    r = round(q)
    ok = math.isfinite(f) and abs(q - r) < 1e-6 and 0 < r < limit
    return (int(r) if ok else 0), ok


def listify(table, values):
    if isinstance(values, str):
        return [values]
    if isinstance(values, (list, tuple)):
        return list(values)
    try:
        iter(values)
    except TypeError:
        return [values]
    return None        # a one-shot iterable: cannot be inspected without consuming it


def indices(table, values):
    vals = listify(table, values)
    if vals is None:
        return None
    out = []
    for v in vals:
        try:
            out.append(list(table.types).index(v) + 1)
        except ValueError:
            out.append(0)
    return out


# --------------------------------------------------------------------------------------
def pt_state(t):
    T = list(t.types)
    toks, fps, muts = [], [], []
    for a in T:
        rt, rf, rm = [], [], []
        for b in T:
            v = t.values[a][b]
            rt.append(tok(v))
            rf.append(fp(v))
            rm.append(0 if v is None else mutability(v))
        toks.append(rt)
        fps.append(rf)
        muts.append(rm)
    return {'tok': toks, 'fp': fps, 'mut': muts}


def vt_state(t):
    return {'set': [0 if t.values[a] is None else 1 for a in t.types],
            'fp': [fp(t.values[a]) for a in t.types], 'tok': [tok(t.values[a]) for a in t.types]}


def arg_desc(v):
    return {'tok': tok(v), 'mut': mutability(v), 'fp': fp(v), 'none': 1 if v is None else 0}


def density_state(d):
    T = list(d.types)
    rho, exact = [], True
    for a in T:
        r, ok = scaled(d.density[a], 1e-3, 40000)
        rho.append(r)
        exact = exact and ok
    pair = [[int(round(float(d.pair[a, b][0]) * 1e6)) if abs(float(d.pair[a, b][0])) < 2000 else -1 for b in T] for a in T]
    site = [[int(round(float(d.site[a, b][0]) * 1e3)) if abs(float(d.site[a, b][0])) < 2e6 else -1 for b in T] for a in T]
    tot = float(d.total)
    return {'rho': rho, 'exact': 1 if exact else 0, 'pair': pair, 'site': site,
            'total': int(round(tot * 1e3)) if abs(tot) < 2e6 else -1}


def diameter_state(d):
    T = list(d.types)
    dm, exact = [], True
    for a in T:
        r, ok = scaled(d.diameter[a], 1e-2, 1000)
        dm.append(r)
        exact = exact and ok
    sig2 = []
    for a in T:
        row = []
        for b in T:
            s = d.sigma[a, b]
            row.append(0 if s is None else (int(round(2 * float(s) * 100)) if abs(float(s)) < 1e6 else -1))
        sig2.append(row)
    vol6 = []
    for a in T:
        v = d.volume[a]
        vol6.append(0 if v is None else (int(round(float(v) * 6.0 / math.pi * 1e6)) if abs(float(v)) < 1000 else -1))
    return {'d': dm, 'exact': 1 if exact else 0, 'sig2': sig2, 'vol6': vol6}


def domain_state(d):
    n = d._length
    out = {'len': int(n) if isinstance(n, (int, np.integer)) else -1}
    try:
        dr, dk = float(d._dr), float(d._dk)
        out['nr'] = int(len(d.r))
        out['nk'] = int(len(d.k))
        out['drm'] = max(1, min(10 ** 6, int(round(dr * 1000))))
        out['dkm'] = max(1, min(10 ** 6, int(round(dk * 1000))))
        out['conj'] = int(round(dr * dk * n / math.pi * 1e6))
        out['r1'] = int(round(float(d.r[0]) / dr * 1e6))
        out['rn'] = int(round(float(d.r[-1]) / (dr * len(d.r)) * 1e6))
        out['k1'] = int(round(float(d.k[0]) / dk * 1e6))
        out['kn'] = int(round(float(d.k[-1]) / (dk * len(d.k)) * 1e6))
        out['c2'] = int(round(float(d.DST_II_coeffs[0]) / (2 * math.pi * d.r[0] * dr) * 1e6))
        out['c3'] = int(round(float(d.DST_III_coeffs[0]) / (d.k[0] * dk / (4 * math.pi ** 2)) * 1e6))
    except Exception as e:      # partially constructed object (constructor raised)
        out['partial'] = type(e).__name__
    return out


SPACE = {'Real': 1, 'Fourier': 2, 'NonSpatial': 3}


def space_of(m):
    s = getattr(m, 'space', None)
    return SPACE.get(getattr(s, 'name', None), 0)


# --------------------------------------------------------------------------------------
_STACK = []
HOLD = 0          # > 0 while the observer itself calls hooked methods: those events are dropped


def pre(ev, args, kwargs):
    if HOLD:
        return {'_held': True}
    _STACK.append(ev)
    return _pre(ev, args, kwargs)


def post(ev, args, kwargs, ret, exc, pre_, depth):
    if isinstance(pre_, dict) and pre_.get('_held'):
        return None
    parent = _STACK[-2] if len(_STACK) > 1 else ''
    try:
        if ev.startswith('domain.ma_') and depth > 0 and not parent.startswith('calc.'):
            return None          # transforms inside cost(): far too many, covered by replay
        r = _post(ev, args, kwargs, ret, exc, pre_, depth)
        if r is not None:
            r['parent'] = parent
        return r
    finally:
        if _STACK:
            _STACK.pop()


def _pre(ev, args, kwargs):
    if ev in ('pt.set', 'vt.set'):
        t = args[0]
        index = args[1]
        if ev == 'pt.set':
            try:
                k1, k2 = index
            except Exception:
                return {'k1': None, 'k2': None}
            return {'k1': indices(t, k1), 'k2': indices(t, k2)}
        return {'k': indices(t, index)}
    if ev in ('density.set', 'diameter.set'):
        owner = args[0]
        tbl = owner.density if ev == 'density.set' else owner.diameter
        return {'k': indices(tbl, args[1])}
    if ev in ('domain.ma_to_fourier', 'domain.ma_to_real'):
        return {'space': space_of(args[1])}
    ext = _EXT_PRE.get(ev)
    if ext:
        return ext(ev, args, kwargs)
    return None


def _post(ev, args, kwargs, ret, exc, pre_, depth):
    self = args[0] if args else None
    if ev == 'pt.new':
        if exc is not None:
            return None
        return {'obj': oid(self), 'n': len(self.types), 'sym': 1 if self.symmetric else 0, 'name': str(self.name)}
    if ev == 'pt.set':
        r = {'obj': oid(self), 'k1': pre_['k1'], 'k2': pre_['k2'], 'arg': arg_desc(args[2])}
        r.update(pt_state(self))
        return r
    if ev == 'pt.setUnset':
        r = {'obj': oid(self), 'arg': arg_desc(args[1] if len(args) > 1 else kwargs.get('value'))}
        r.update(pt_state(self))
        return r
    if ev == 'pt.apply':
        inplace = kwargs.get('inplace', args[2] if len(args) > 2 else True)
        r = {'obj': oid(self), 'inplace': 1 if inplace else 0,
             'ret': oid(ret) if ret is not None else 0}
        r.update(pt_state(self))
        if ret is not None and ret is not self:
            r['new'] = pt_state(ret)
        return r
    if ev in ('pt.check', 'pt.export'):
        r = {'obj': oid(self)}
        r.update(pt_state(self))
        return r
    if ev == 'vt.new':
        if exc is not None:
            return None
        return {'obj': oid(self), 'n': len(self.types), 'name': str(self.name)}
    if ev == 'vt.set':
        r = {'obj': oid(self), 'k': pre_['k'], 'arg': arg_desc(args[2])}
        r.update(vt_state(self))
        return r
    if ev == 'vt.setUnset':
        r = {'obj': oid(self), 'arg': arg_desc(args[1] if len(args) > 1 else kwargs.get('value'))}
        r.update(vt_state(self))
        return r
    if ev == 'vt.check':
        r = {'obj': oid(self)}
        r.update(vt_state(self))
        return r
    if ev == 'density.new':
        return None if exc is not None else {'obj': oid(self), 'n': len(self.types)}
    if ev == 'density.set':
        v, ok = scaled(args[2], 1e-3, 40000)
        r = {'obj': oid(self), 'k': pre_['k'], 'v': v, 'vexact': 1 if ok else 0}
        r.update(density_state(self))
        return r
    if ev == 'density.check':
        r = {'obj': oid(self)}
        r.update(density_state(self))
        return r
    if ev == 'diameter.new':
        return None if exc is not None else {'obj': oid(self), 'n': len(self.types)}
    if ev == 'diameter.set':
        v, ok = scaled(args[2], 1e-2, 1000)
        r = {'obj': oid(self), 'k': pre_['k'], 'v': v, 'vexact': 1 if ok else 0}
        r.update(diameter_state(self))
        return r
    if ev == 'diameter.check':
        r = {'obj': oid(self)}
        r.update(diameter_state(self))
        return r
    if ev in ('domain.new', 'domain.set_dr', 'domain.set_dk', 'domain.set_length'):
        r = {'obj': oid(self)}
        if ev == 'domain.new':
            r['from'] = 'dr' if (kwargs.get('dr') is not None or (len(args) > 2 and args[2] is not None)) else 'dk'
        r.update(domain_state(self))
        return r
    if ev in ('domain.ma_to_fourier', 'domain.ma_to_real'):
        m = args[1]
        sym = 1
        try:
            sym = 1 if np.array_equal(m.data, np.transpose(m.data, (0, 2, 1))) else 0
        except Exception:
            sym = -1
        return {'obj': oid(self), 'ma': oid(m), 'pre': pre_['space'], 'post': space_of(m), 'sym': sym,
                'lenok': 1 if getattr(m, 'length', -1) == self._length else 0}
    ext = _EXT_POST.get(ev)
    if ext:
        return ext(ev, args, kwargs, ret, exc, pre_, depth)
    return None


# extension points filled by harness/observer_prism.py (System / PRISM / calculate / omega events)
_EXT_PRE = {}
_EXT_POST = {}
try:
    from harness import observer_prism as _op
    _op.register(_EXT_PRE, _EXT_POST)
except ImportError:
    pass
