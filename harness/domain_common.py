"""Binding of spec/Domain.tla to pyPRISM.core.Domain (shared by C07 and C08)."""
import math
import random

import numpy as np

from harness.core import run_tlc, require_clean, MachineryError
from harness.graph import Graph, Walker, Adapter
from harness.refmath import mono, rat, dense_transforms

ULP = 2.3e-16


def cfg(lens, maxsteps, nxt='CNext', init='MCInit', edge=True, extra=''):
    return '\n'.join([
        'CONSTANTS Lens = {%s}' % ', '.join(str(x) for x in lens),
        'Spacings <- MC_Spacings', 'MaxSteps = %d' % maxsteps,
        'INIT %s' % init, 'NEXT %s' % nxt, 'VIEW View', 'CHECK_DEADLOCK FALSE',
        'INVARIANTS Conjugate GridSize NotStale FreshEquivalent RoundTripIsIdentity ForwardIs4Pi BackwardIs1Over2Pi2 WordBounded',
        'PROPERTIES SpaceGuard',
        'ACTION_CONSTRAINT %s' % ('Edge' if edge else 'NoEdge'), extra, ''])


def rel(a, b):
    a = np.asarray(a, dtype=float)
    b = np.asarray(b, dtype=float)
    if a.shape != b.shape:
        return float('inf')
    den = max(float(np.max(np.abs(b))) if b.size else 0.0, 1e-300)
    return float(np.max(np.abs(a - b))) / den if a.size else 0.0


class DomainAdapter(Adapter):
    """abstract state: len, dr, dk (monomials), built = what the arrays were built from.
    Parametric replay: every real-space spacing is multiplied by `scale`, every Fourier-space
    spacing divided by it (the specification's statements are invariant under that)."""
    module = 'Domain'

    def __init__(self, info, scale, seed, heavy=True, which=('grid', 'transform', 'coeffs', 'matrixarray')):
        self.info = info
        self.s = scale
        self.rng = np.random.RandomState(seed % (2 ** 31))
        self.heavy = heavy
        self.which = set(which)
        self.fwd = mono(info['fwd'])
        self.bwd = mono(info['bwd'])
        self.c2 = mono(info['c2'])
        self.c3 = mono(info['c3'])
        self.cache = {}
        self.batteries = 0

    def new(self, state):
        return {'d': None}

    def clone(self, w):
        import copy
        return copy.deepcopy(w)

    def _int(self, n):
        """the number of points the way callers hand it over: int, numpy integer (a shape entry, len() of an array)"""
        c = self.rng.rand()
        return int(n) if c < 0.6 else (np.int64(n) if c < 0.85 else np.int32(n))

    def _real(self, x):
        """a spacing as float, numpy scalar or 0-d array (the result of an expression on arrays)"""
        c = self.rng.rand()
        return float(x) if c < 0.6 else (np.float64(x) if c < 0.85 else np.array(float(x)))

    def step(self, w, l):
        from pyPRISM.core.Domain import Domain
        act = l['act']
        if act == 'New':
            q = rat(l['q'])
            if l['kind'] == 'dr':
                w['d'] = Domain(self._int(l['n']), dr=self._real(q * self.s))
            else:
                w['d'] = Domain(self._int(l['n']), dk=self._real(q / self.s))
        elif act == 'SetDr':
            w['d'].dr = self._real(rat(l['q']) * self.s)
        elif act == 'SetDk':
            w['d'].dk = self._real(rat(l['q']) / self.s)
        elif act in ('SetLen', 'SetLenStale'):
            w['d'].length = self._int(l['n'])
        else:
            raise MachineryError('unknown action ' + act)
        # the FIRST transform after the configuration step, before anything reads the grids (a checker that inspects r and k
        # first would trigger - and so hide - a lazy rebuild): forward and backward in turn
        d = w['d']
        w['turn'] = w.get('turn', 0) + 1
        if getattr(self, 'blind', False):       # a walk on which nothing is observed before its end (graph.blind_walks)
            w['first'] = None
            return {}
        try:
            m = int(d.length)
            probe = np.cos(0.37 * np.arange(1, m + 1)) + 0.2
            which = 'f' if w['turn'] % 2 else 'r'
            w['first'] = (which, probe, np.array(d.to_fourier(probe.copy()) if which == 'f' else d.to_real(probe.copy()), dtype=float))
        except Exception as ex:      # noqa
            w['first'] = ('x', None, '%s: %s' % (type(ex).__name__, str(ex)[:160]))
        return {}

    def project(self, w):
        return w

    # ------------------------------------------------------------------------------
    def diff_state(self, want, w):
        from pyPRISM.core.Domain import Domain
        d = w['d']
        out = []

        def bad(clause, **kw):
            out.append((clause, kw))
        if want['len'] == 0:
            return out
        n = want['len']
        DR = mono(want['dr']) * self.s
        DK = mono(want['dk']) / self.s
        b = want['built']
        BDR = mono(b['dr']) * self.s
        BDK = mono(b['dk']) / self.s
        if d.length != n:
            bad('Length', expected=n, observed=d.length)
        if w.get('first') is None and w.get('turn'):
            # a walk without observations: the very first access to the object after ALL its configuration steps is a transform
            try:
                m = int(d.length)
                probe = np.cos(0.37 * np.arange(1, m + 1)) + 0.2
                which = 'f' if w['turn'] % 2 else 'r'
                w['first'] = (which, probe, np.array(d.to_fourier(probe.copy()) if which == 'f' else d.to_real(probe.copy()), dtype=float))
            except Exception as ex:      # noqa
                w['first'] = ('x', None, '%s: %s' % (type(ex).__name__, str(ex)[:160]))
        first = w.get('first')
        if first is not None and first[0] == 'x':
            bad('FirstTransformAfterSetter', observed=first[2], what='the first transform after the configuration step raised')
        elif first is not None and len(first[1]) == n and n <= 300 and b['nr'] == n and b['nk'] == n:
            MF0, MR0 = dense_transforms(n, BDR, BDK, self.fwd, self.bwd)
            exp0 = (MF0 if first[0] == 'f' else MR0) @ first[1]
            if first[2].shape != exp0.shape or rel(first[2], exp0) > 1e-11:
                bad('FirstTransformAfterSetter', direction='to_fourier' if first[0] == 'f' else 'to_real',
                    err=rel(first[2], exp0) if first[2].shape == exp0.shape else 'shape',
                    what='the first transform after the configuration step (before the grids were read) differs from the specified transform')
        if 'grid' in self.which:
            if abs(d.dr - DR) > 8 * ULP * abs(DR):
                bad('Spacing.dr', expected=DR, observed=float(d.dr))
            if abs(d.dk - DK) > 8 * ULP * abs(DK):
                bad('NotStale.dk', expected=DK, observed=float(d.dk), what='conjugate spacing')
            conj = d.dr * d.dk * d.length / math.pi
            if abs(conj - 1.0) > 16 * ULP:
                bad('Conjugate', observed=conj, what='dr*dk*length/pi')
            if len(d.r) != b['nr'] or len(d.k) != b['nk']:
                bad('GridSize', expected=[b['nr'], b['nk']], observed=[len(d.r), len(d.k)], length=n,
                    dr=float(d.dr), dk=float(d.dk))
                return out[:3]          # everything below needs grids of the right size
            idx = np.arange(1, n + 1)
            if rel(d.r, idx * BDR) > 1e-13:
                bad('NotStale.r', what='r_i = (i+1) dr', err=rel(d.r, idx * BDR))
            if rel(d.k, idx * BDK) > 1e-13:
                bad('NotStale.k', what='k_j = (j+1) dk', err=rel(d.k, idx * BDK))
            # long_r, DST_II_coeffs, DST_III_coeffs are internal attributes (PRISM.cost reads long_r): judged where they exist; a
            # Domain without them is still judged through its transforms (dense reference matrices) below
            if hasattr(d, 'long_r') and rel(np.asarray(d.long_r).reshape(-1), idx * BDR) > 1e-13:
                bad('NotStale.long_r', err=rel(np.asarray(d.long_r).reshape(-1), idx * BDR))
            f = Domain(n, dr=d.dr)
            for attr in [a for a in ('dr', 'dk', 'r', 'k', 'DST_II_coeffs', 'DST_III_coeffs') if hasattr(d, a)]:
                a1, a2 = np.asarray(getattr(d, attr)), np.asarray(getattr(f, attr))
                if a1.shape != a2.shape or rel(a1, a2) > 1e-13:
                    bad('FreshEquivalent', attribute=attr, err=rel(a1, a2) if a1.shape == a2.shape else 'shape')
                    break
        if out:
            return out[:3]
        if 'coeffs' in self.which and hasattr(d, 'DST_II_coeffs') and hasattr(d, 'DST_III_coeffs'):
            idx = np.arange(1, n + 1)
            e2 = self.c2 * (idx * BDR) * BDR
            e3 = self.c3 * (idx * BDK) * BDK
            if rel(d.DST_II_coeffs, e2) > 1e-13:
                bad('ForwardCoefficient', what='DST_II_coeffs = C2 * r * dr', err=rel(d.DST_II_coeffs, e2))
            if rel(d.DST_III_coeffs, e3) > 1e-13:
                bad('BackwardCoefficient', what='DST_III_coeffs = C3 * k * dk', err=rel(d.DST_III_coeffs, e3))
        if self.heavy and not out:
            out += self.battery(d, n, BDR, BDK)
        if not out:
            # a deep copy of the Domain (what every PRISM object works with) is the same Domain: same grids, same transforms
            import copy
            d2 = copy.deepcopy(d)
            probe = np.cos(0.37 * np.arange(1, n + 1)) + 0.2
            for attr in [a for a in ('dr', 'dk', 'r', 'k', 'DST_II_coeffs', 'DST_III_coeffs', 'long_r') if hasattr(d, a)]:
                a1, a2 = np.asarray(getattr(d, attr)), np.asarray(getattr(d2, attr))
                if a1.shape != a2.shape or not np.array_equal(a1, a2):
                    bad('FreshEquivalent.deepcopy', attribute=attr)
                    break
            else:
                if not (np.array_equal(d.to_fourier(probe.copy()), d2.to_fourier(probe.copy())) and
                        np.array_equal(d.to_real(probe.copy()), d2.to_real(probe.copy()))):
                    bad('FreshEquivalent.deepcopy', attribute='transforms', what='the deep copy of the Domain transforms differently')
                # another live Domain with ANOTHER grid, used in between, does not disturb this one
                keep_f, keep_r = np.array(d.to_fourier(probe.copy())), np.array(d.to_real(probe.copy()))
                other = Domain(n, dr=float(d.dr) * 2.0)
                other.to_fourier(probe.copy())
                other.to_real(probe.copy())
                if not (np.array_equal(keep_f, d.to_fourier(probe.copy())) and np.array_equal(keep_r, d.to_real(probe.copy()))):
                    bad('FreshEquivalent.other_domain', what='using another Domain object in between changed the transforms of this one')
                # ... and copies share no mutable state: reconfiguring one copy leaves the other copy and the original alone.  (The
                # object under test itself is NOT touched here: a setter call, however neutral for a correct Domain, changes what
                # an implementation may remember about how the Domain was configured - it would be a step of the history)
                keep = np.array(d2.to_fourier(probe.copy()))
                d3 = copy.deepcopy(d)
                d3.dr = d3.dr * 2.0
                d3.to_fourier(probe.copy())
                if not (np.array_equal(keep, d2.to_fourier(probe.copy())) and np.array_equal(keep_f, d.to_fourier(probe.copy()))):
                    bad('FreshEquivalent.deepcopy', attribute='isolation', what='re-assigning dr on one deep copy changed another copy or the original')
        return out[:3]

    # ------------------------------------------------------------------------------
    def battery(self, d, n, DR, DK):
        """transform statements on the reached Domain, decided on a basis (complete for a
        linear map) for n <= 256, on 48 basis vectors + random vectors above"""
        from pyPRISM.core.MatrixArray import MatrixArray
        from pyPRISM.core.Space import Space
        out = []
        self.batteries += 1

        def bad(clause, **kw):
            out.append((clause, kw))
        MF, MR = dense_transforms(n, DR, DK, self.fwd, self.bwd)
        tol = 1e-11
        if 'transform' in self.which:
            cols = range(n) if n <= 256 else sorted(set(self.rng.randint(0, n, 48).tolist() + [0, 1, n - 2, n - 1]))
            ef = eb = 0.0
            sf = float(np.max(np.abs(MF)))
            sb = float(np.max(np.abs(MR)))
            for i in cols:
                e = np.zeros(n)
                e[i] = 1.0
                ef = max(ef, float(np.max(np.abs(d.to_fourier(e) - MF[:, i]))) / sf)
                eb = max(eb, float(np.max(np.abs(d.to_real(e) - MR[:, i]))) / sb)
            if ef > tol:
                bad('ForwardTransform', what='to_fourier differs from the specified discrete transform on a basis vector', err=ef)
            if eb > tol:
                bad('BackwardTransform', what='to_real differs from the specified discrete transform on a basis vector', err=eb)
            x = self.rng.standard_normal(n)
            y = self.rng.standard_normal(n)
            x0, y0 = x.copy(), y.copy()
            fx, fy = d.to_fourier(x), d.to_fourier(y)
            fxy = d.to_fourier(2.5 * x - 0.75 * y)
            if rel(fxy, 2.5 * fx - 0.75 * fy) > tol or rel(fx, MF @ x0) > tol:
                bad('Linear.forward', err=rel(fxy, 2.5 * fx - 0.75 * fy), err_vs_spec=rel(fx, MF @ x0))
            rx, ry = d.to_real(x), d.to_real(y)
            rxy = d.to_real(2.5 * x - 0.75 * y)
            if rel(rxy, 2.5 * rx - 0.75 * ry) > tol or rel(rx, MR @ x0) > tol:
                bad('Linear.backward', err=rel(rxy, 2.5 * rx - 0.75 * ry), err_vs_spec=rel(rx, MR @ x0))
            # linear also across magnitudes: tiny and huge multiples of a vector (a pair function of a dilute / a dense system)
            for A in (1e-9, 1e-13, 1e7):
                if rel(d.to_fourier(A * x0), A * fx) > tol:
                    bad('Linear.forward.scale', amplitude=A, err=rel(d.to_fourier(A * x0), A * fx))
                    break
                if rel(d.to_real(A * x0), A * rx) > tol:
                    bad('Linear.backward.scale', amplitude=A, err=rel(d.to_real(A * x0), A * rx))
                    break
            if not (np.array_equal(x, x0) and np.array_equal(y, y0)):
                bad('TransformLeavesInputUnmodified')
            # round trips: bounded by cond * eps; the k<->r maps have condition ~ n^2
            rt = 1e-13 * max(n, 16) ** 2
            if rel(d.to_real(d.to_fourier(x)), x0) > rt:
                bad('RoundTrip.real', err=rel(d.to_real(d.to_fourier(x)), x0), bound=rt)
            if rel(d.to_fourier(d.to_real(x)), x0) > rt:
                bad('RoundTrip.fourier', err=rel(d.to_fourier(d.to_real(x)), x0), bound=rt)
            # "for every array": element types other than float64 (a mask, an integer-valued Mayer function, single precision).
            # The values are small integers / halves, exactly representable in every type used; integer input must give what the
            # same values as float64 give; single-precision input is judged at single-precision rounding (the statement does not
            # say in which precision such an array is transformed)
            z = self.rng.randint(-3, 4, n)
            for dt, t in (('int64', tol), ('int32', tol), ('int8', tol), ('bool', tol), ('float32', 1e-5)):
                zz = (np.abs(z) > 1) if dt == 'bool' else z.astype(dt)
                zf = np.asarray(zz, dtype=float)
                keep = zz.copy()
                for name, fn, M in (('forward', d.to_fourier, MF), ('backward', d.to_real, MR)):
                    got = np.asarray(fn(zz), dtype=float)
                    if got.shape != (n,) or rel(got, M @ zf) > t:
                        bad('Linear.%s.dtype' % name, dtype=dt, err=rel(got, M @ zf) if got.shape == (n,) else None,
                            what='transform of a %s array differs from the transform of the same values as float64' % dt)
                if dt != 'float32' and rel(np.asarray(d.to_real(d.to_fourier(zz)), dtype=float), zf) > rt:
                    bad('RoundTrip.real.dtype', dtype=dt)
                if not np.array_equal(zz, keep) or zz.dtype != keep.dtype:
                    bad('TransformLeavesInputUnmodified', dtype=dt)
        if 'matrixarray' in self.which and not out:
            # a transform that FAILS (an array that does not fit the grid) leaves the array as it was - data and space flag: the
            # flag says in which space the data is, also on the error path
            for start, call in ((Space.Real, d.MatrixArray_to_fourier), (Space.Fourier, d.MatrixArray_to_real)):
                wrong = self.rng.standard_normal((n + 1, 2, 2))
                wrong = wrong + np.transpose(wrong, (0, 2, 1))
                mw = MatrixArray(length=n + 1, rank=2, data=wrong.copy(), space=start)
                try:
                    call(mw)
                    bad('SpaceGuard', what='an array of another length than the grid was transformed without an error', length=n + 1)
                except Exception:      # noqa - the class is not specified
                    if mw.space != start or not np.array_equal(np.asarray(mw.data), wrong):
                        bad('SpaceGuard', what='a transform that raised left the array changed (data or space flag)', flag=str(mw.space), started=str(start))
            # memory layouts a user's array may have: C order, Fortran order, the per-matrix transpose view, a
            # pair-major (rank, rank, n) table transposed, every second row of a longer array
            layouts = [('C', lambda a: a.copy()), ('F', np.asfortranarray), ('swapaxes', lambda a: a.copy().swapaxes(1, 2)),
                       ('table.T', lambda a: np.ascontiguousarray(a.T).T), ('strided', lambda a: np.repeat(a, 2, axis=0)[::2])]
            if n > 256:                 # long grids (thorough tier): two layouts, two ranks - the layout logic does not depend on n
                layouts = [layouts[0], layouts[4]]
            for rank in ((1, 2, 3, 4) if n <= 256 else (1, 3)):
              for lname, layout in layouts:
                  data = self.rng.standard_normal((n, rank, rank))
                  data = data + np.transpose(data, (0, 2, 1))
                  m = MatrixArray(length=n, rank=rank, data=layout(data.copy()), space=Space.Real)       # never the reference array itself
                  if not np.array_equal(np.asarray(m.data), data):
                    raise MachineryError('layout %s changed the values' % lname)
                  d.MatrixArray_to_fourier(m)
                  exp = np.einsum('jn,nab->jab', MF, data)
                  if m.space != Space.Fourier:
                      bad('MatrixArray.flag', rank=rank, layout=lname, observed=str(m.space))
                  if rel(m.data, exp) > tol:
                      bad('MatrixArray.forward', rank=rank, layout=lname, err=rel(m.data, exp))
                  if not np.array_equal(m.data, np.transpose(m.data, (0, 2, 1))):
                      bad('MatrixArray.symmetric', rank=rank)
                  snap = m.data.copy()
                  try:
                      d.MatrixArray_to_fourier(m)
                      bad('SpaceGuard', what='second MatrixArray_to_fourier did not raise', rank=rank)
                  except ValueError:
                      if not np.array_equal(snap, m.data) or m.space != Space.Fourier:
                          bad('SpaceGuard', what='refused transform modified the array', rank=rank)
                  d.MatrixArray_to_real(m)
                  exp2 = np.einsum('in,nab->iab', MR, exp)
                  if m.space != Space.Real or rel(m.data, exp2) > 1e-9:
                      bad('MatrixArray.backward', rank=rank, layout=lname, err=rel(m.data, exp2), flag=str(m.space))
                  try:
                      d.MatrixArray_to_real(m)
                      bad('SpaceGuard', what='second MatrixArray_to_real did not raise', rank=rank)
                  except ValueError:
                      pass
                  if out:
                      break
              if out:
                  break
        return out


class TransformAdapter(Adapter):
    """part 2 of the spec: one MatrixArray, its flag and its content word"""
    module = 'Domain.transforms'

    def __init__(self, info, n, dr, rank, seed):
        self.n, self.dr, self.rank = n, dr, rank
        self.dk = math.pi / (dr * n)
        self.MF, self.MR = dense_transforms(n, dr, self.dk, mono(info['fwd']), mono(info['bwd']))
        rng = np.random.RandomState(seed % (2 ** 31))
        base = rng.standard_normal((n, rank, rank))
        self.base = base + np.transpose(base, (0, 2, 1))

    def new(self, state):
        from pyPRISM.core.Domain import Domain
        from pyPRISM.core.MatrixArray import MatrixArray
        from pyPRISM.core.Space import Space
        sp = Space.Real if state['ma']['space'] == 'Real' else Space.Fourier
        return {'d': Domain(self.n, dr=self.dr),
                'm': MatrixArray(length=self.n, rank=self.rank, data=self.base.copy(), space=sp)}

    def step(self, w, l):
        from pyPRISM.core.Space import Space
        act = l['act']
        if act == 'MARelabel':
            w['m'].space = Space.Real if l['space'] == 'Real' else Space.Fourier
            return {}
        f = w['d'].MatrixArray_to_fourier if act == 'MAToFourier' else w['d'].MatrixArray_to_real
        try:
            f(w['m'])
            return {'raises': False}
        except ValueError:
            return {'raises': True}

    def project(self, w):
        return w

    def diff_state(self, want, w):
        out = []
        m = w['m']
        exp = self.base
        for op in want['ma']['word']:
            exp = np.einsum('jn,nab->jab', self.MF if op == 'F' else self.MR, exp)
        if m.space.name != want['ma']['space']:
            out.append(('FlagAfterTransform', {'expected': want['ma']['space'], 'observed': m.space.name}))
        e = rel(m.data, exp)
        if e > 1e-9:
            out.append(('ContentAfterTransforms', {'word': want['ma']['word'], 'err': e}))
        if not np.allclose(m.data, np.transpose(m.data, (0, 2, 1)), rtol=0, atol=1e-12 * np.max(np.abs(m.data))):
            out.append(('MatrixArray.symmetric', {}))
        return out

    def diff_obs(self, label, obs):
        if 'raises' in label and obs.get('raises') != label['raises']:
            return [('SpaceGuard', {'expected_raises': label['raises'], 'observed_raises': obs.get('raises')})]
        return []


def model_and_graph(ctx, name, lens, maxsteps, workers=1):
    res = run_tlc('MC_Domain', cfg(lens, maxsteps), ctx.tmp, seed=ctx.seed, workers=workers)
    require_clean(res, name)
    ctx.add_tlc(name, res, exhaustive=True)
    g = Graph(res.records.get('EDGE', []), res.records.get('INIT'))
    info = res.records['INFO'][0]
    if not g.n_edges:
        raise MachineryError('no graph exported for ' + name)
    return res, g, info


def transform_graph(ctx, name):
    res = run_tlc('MC_Domain', cfg([4], 0, nxt='TNext', init='TInit', extra='CONSTRAINT TConstraint'),
                  ctx.tmp, seed=ctx.seed)
    require_clean(res, name)
    ctx.add_tlc(name, res, exhaustive=True)
    return res, Graph(res.records.get('EDGE', []), res.records.get('INIT')), res.records['INFO'][0]
