"""C13 - MatrixArray arithmetic matches per-matrix linear algebra without aliasing.

spec/MatrixArray.tla: objects = references to numpy buffers + space flag; TLC checks
NoAliasOutOfPlace, InPlaceTouchesOnlyLhs, RefusedLeavesEverything, SpaceRule, InvertIsInverse on
every operator x operand-kind x object combination (incl. self-aliased operands) to a bounded
depth, with exact rational data.  Every exported edge is replayed on real MatrixArray objects:
data compared with TLC's rationals, memory sharing (np.shares_memory) with the spec's buffer
relation, exception class with SpaceRule.  Parametric replay: the same skeletons with random
well-conditioned data of rank 1-5 / length 1-64 against a per-matrix reference interpreter that is
itself validated against TLC on the exact instances."""
import random

import numpy as np

from harness.core import run_tlc, require_clean, MachineryError
from harness.graph import Graph, Walker, Adapter, key_of

NAMES3 = ('X', 'Y', 'Z')


def cfg(L, R, steps, spaces, nxt, edge=True):
    return '\n'.join([
        'CONSTANTS L = %d' % L, 'R = %d' % R, 'MaxSteps = %d' % steps, 'Spaces <- %s' % spaces,
        'INIT MCInit', 'NEXT %s' % nxt, 'VIEW View', 'CHECK_DEADLOCK FALSE',
        'INVARIANTS TypeOK Canonical InvertIsInverse IterVisitsEachPairOnce',
        'PROPERTIES NoAliasOutOfPlace InPlaceTouchesOnlyLhs RefusedLeavesEverything SpaceRule AccessorsArePure SetMatrixLocal',
        'ACTION_CONSTRAINT %s' % ('Edge' if edge else 'NoEdge'), ''])


def to_float(data):
    return np.array([[[c[0] / c[1] for c in row] for row in mat] for mat in data], dtype=float)


def type_names(rank):
    return ['t%d' % i for i in range(rank)]


# ------------------------------------------------------------------------------------------
# reference interpreter: the specification's action semantics, matrix by matrix, in numpy
def set_mat(R):
    return np.array([[5.0 if i == j else 1.5 for j in range(R)] for i in range(R)])


# ------------------------------------------------------------------------------------------
class Ref(object):
    def __init__(self, L, R, x, y, sx, sy):
        self.L, self.R = L, R
        self.bufs = {1: x.copy(), 2: y.copy()}
        self.obj = {'X': [1, sx], 'Y': [2, sy], 'Z': [0, '-']}
        self.nbuf = 2

    def data(self, n):
        return self.bufs[self.obj[n][0]]

    def fresh(self, d):
        self.nbuf += 1
        self.bufs[self.nbuf] = d
        return self.nbuf

    def operand(self, kind, m):
        L, R = self.L, self.R
        if kind == 'ma':
            return self.data(m)
        if kind == 'scalar':
            return np.full((L, R, R), 2.0)
        if kind == 'vec':
            return np.array([[[(l + 2) / 2.0] * R] * R for l in range(L)])
        if kind == 'row':
            return np.array([[[(j + 3) / 3.0 for j in range(R)] for i in range(R)] for l in range(L)])
        if kind == 'mat':
            return np.array([[[(2 * (i + 1) + (j + 1)) / 2.0 for j in range(R)] for i in range(R)] for l in range(L)])
        return np.array([[[(i + 1) + 2 * (j + 1) + (l + 1) for j in range(R)] for i in range(R)] for l in range(L)], dtype=float)

    @staticmethod
    def space_ok(a, b):
        return a == b or 'NonSpatial' in (a, b)

    def step(self, l):
        """returns raises ('' | class name); mutates self"""
        act = l['act']
        n = l.get('lhs')
        if act == 'Bin':
            if l['kind'] == 'ma' and not self.space_ok(self.obj[n][1], self.obj[l['rhs']][1]):
                return 'AssertionError'
            a, b = self.data(n), self.operand(l['kind'], l['rhs'])
            out = np.empty_like(a)
            for i in range(self.L):            # matrix by matrix
                if l['op'] == 'add':
                    out[i] = a[i] + b[i]
                elif l['op'] == 'sub':
                    out[i] = a[i] - b[i]
                elif l['op'] == 'mul':
                    out[i] = a[i] * b[i]
                else:
                    out[i] = a[i] / b[i]
            if l['inplace']:
                self.bufs[self.obj[n][0]] = out
            else:
                self.obj[l.get('dst', 'Z')] = [self.fresh(out), self.obj[n][1]]
            return ''
        if act == 'Dot':
            if not self.space_ok(self.obj[n][1], self.obj[l['rhs']][1]):
                return 'AssertionError'
            a, b = self.data(n), self.data(l['rhs'])
            out = np.array([a[i].dot(b[i]) for i in range(self.L)])
            self.obj[n if l['inplace'] else l.get('dst', 'Z')] = [self.fresh(out), self.obj[n][1]]
            return ''
        if act == 'Invert':
            a = self.data(n)
            out = np.array([np.linalg.inv(a[i]) for i in range(self.L)])
            self.obj[n if l['inplace'] else l.get('dst', 'Z')] = [self.fresh(out), self.obj[n][1]]
            return ''
        if act == 'GetCopy':
            self.obj[l.get('dst', 'Z')] = [self.fresh(self.data(n).copy()), self.obj[n][1]]
            return ''
        if act == 'Wrap':
            self.obj['Z'] = [self.obj[n][0], self.obj[n][1]]
            return ''
        if act == 'SetItem':
            if l['t1'] == 0 or l['t2'] == 0:
                return 'ValueError'
            d = self.data(n).copy()
            v = np.array([7.0 * (i + 1) / 2.0 for i in range(self.L)])
            d[:, l['t1'] - 1, l['t2'] - 1] = v
            d[:, l['t2'] - 1, l['t1'] - 1] = v
            self.bufs[self.obj[n][0]] = d
            return ''
        if act == 'GetItem':
            if l['t1'] == 0 or l['t2'] == 0:
                return 'ValueError'
            return ''
        if act == 'AugItem':
            d = self.data(n).copy()
            v = d[:, l['t1'] - 1, l['t2'] - 1] + 1.0
            d[:, l['t1'] - 1, l['t2'] - 1] = v
            d[:, l['t2'] - 1, l['t1'] - 1] = v
            self.bufs[self.obj[n][0]] = d
            return ''
        if act == 'GetIdx':
            return 'AssertionError' if (l['i'] >= self.R or l['j'] >= self.R) else ''
        if act in ('GetMatrix', 'IterPairs'):
            return ''
        if act == 'SetMatrix':
            d = self.data(n).copy()
            d[l['l']] = set_mat(self.R)
            self.bufs[self.obj[n][0]] = d
            return ''
        raise MachineryError('unknown action ' + act)

    def partition(self):
        return [self.obj[n][0] != 0 and [m for m in NAMES3 if self.obj[m][0] == self.obj[n][0]] for n in NAMES3]


# ------------------------------------------------------------------------------------------
class MAAdapter(Adapter):
    module = 'MatrixArray'

    def __init__(self, L, R, seed, parametric=None):
        """parametric = (rank, length): ignore TLC's data, use random well-conditioned data of that
        shape and the reference interpreter as oracle (skeleton replay)"""
        self.L, self.R = L, R
        self.par = parametric
        self.rng = np.random.RandomState(seed % (2 ** 31))
        self.ref_checked = 0

    def space(self, name):
        from pyPRISM.core.Space import Space
        return {'Real': Space.Real, 'Fourier': Space.Fourier, 'NonSpatial': Space.NonSpatial}[name]

    def new(self, state):
        from pyPRISM.core.MatrixArray import MatrixArray
        from pyPRISM.core.IdentityMatrixArray import IdentityMatrixArray
        sx, sy = state['obj']['X']['space'], state['obj']['Y']['space']
        hx, hy = to_float(state['heap'][0]), to_float(state['heap'][1])
        identity = bool(np.array_equal(hy, np.array([np.eye(self.R)] * self.L)))
        if self.par:
            R, L = self.par
            hx = self.rng.standard_normal((L, R, R)) + 3 * np.eye(R)
            hy = np.array([np.eye(R)] * L) if identity else self.rng.standard_normal((L, R, R)) + 3 * np.eye(R)
        else:
            R, L = self.R, self.L
        T = type_names(R)
        X = MatrixArray(length=L, rank=R, data=hx.copy(), space=self.space(sx), types=T)
        if identity:
            Y = IdentityMatrixArray(length=L, rank=R, space=self.space(sy), types=T)
        else:
            Y = MatrixArray(length=L, rank=R, data=hy.copy(), space=self.space(sy), types=T)
        # bystanders: objects of the same shape that take part in no operation (an identity and a default-constructed array):
        # whatever is done to X, Y, Z, they keep their contents (no memory shared between objects through the class or module)
        by = {'identity': IdentityMatrixArray(length=L, rank=R, types=T), 'zeros': MatrixArray(length=L, rank=R, types=T)}
        return {'X': X, 'Y': Y, 'Z': None, 'ref': Ref(L, R, hx, hy, sx, sy), 'R': R, 'L': L, 'bystanders': by}

    def clone(self, w):
        import copy
        # deepcopy keeps the sharing between objects of one world (numpy arrays are copied once)
        return copy.deepcopy(w)

    def operand(self, w, kind, m):
        L, R = w['L'], w['R']
        if kind == 'ma':
            return w[m]
        if kind == 'scalar':
            return 2.0
        if kind == 'vec':
            return np.array([(l + 2) / 2.0 for l in range(L)]).reshape((L, 1, 1))
        if kind == 'row':
            return np.array([(j + 3) / 3.0 for j in range(R)])                      # shape (R,)
        if kind == 'mat':
            return np.array([[(2 * (i + 1) + (j + 1)) / 2.0 for j in range(R)] for i in range(R)])     # shape (R, R)
        return np.array([[[(i + 1) + 2 * (j + 1) + (l + 1) for j in range(R)] for i in range(R)] for l in range(L)], dtype=float)

    def step(self, w, l):
        from pyPRISM.core.MatrixArray import MatrixArray
        act = l['act']
        n = l.get('lhs')
        a = w[n]
        dst = l.get('dst', 'Z')          # the name an out-of-place result is bound to
        obs = {'raises': ''}
        if self.par:
            # type indices of the rank-2 skeleton are folded into the concrete rank
            l = dict(l)
            for t in ('t1', 't2'):
                if t in l:
                    l[t] = min(l[t], w['R'])
            for t in ('i', 'j'):              # index R of the skeleton = "out of range"
                if t in l:
                    l[t] = w['R'] if l[t] >= self.R else min(l[t], w['R'] - 1)
            if act in ('GetMatrix', 'SetMatrix'):
                l['l'] = (w['L'] - 1) if l['l'] == self.L - 1 else min(l['l'], w['L'] - 1)     # the last matrix stays the last
            if act == 'Invert' and max(np.linalg.cond(m) for m in w['ref'].data(n)) > 1e6:
                return {'_skip': True}
            if act == 'Bin' and l['op'] == 'div':
                den = w['ref'].operand(l['kind'], l['rhs'])
                if np.min(np.abs(den)) < 1e-3 * np.max(np.abs(den)):
                    return {'_skip': True}
        before = {m: (w[m].data.copy() if w[m] is not None else None) for m in NAMES3}
        try:
            if act == 'Bin':
                b = self.operand(w, l['kind'], l['rhs'])
                op = l['op']
                if l['inplace']:
                    if op == 'add':
                        a += b
                    elif op == 'sub':
                        a -= b
                    elif op == 'mul':
                        a *= b
                    else:
                        a /= b
                    obs['returns_self'] = a is w[n]
                    w[n] = a
                else:
                    z = {'add': lambda: a + b, 'sub': lambda: a - b, 'mul': lambda: a * b, 'div': lambda: a / b}[op]()
                    w[dst] = z
            elif act == 'Dot':
                b = w[l['rhs']]
                if l['operator']:
                    if l['inplace']:
                        a @= b
                        w[n] = a
                    else:
                        w[dst] = a @ b
                else:
                    if l['inplace']:
                        r = a.dot(b, inplace=True)
                        obs['returns_self'] = r is a
                    else:
                        w[dst] = a.dot(b)
            elif act == 'Invert':
                if l['inplace']:
                    r = a.invert(inplace=True)
                    obs['returns_self'] = r is a
                    prod_a = MatrixArray(length=w['L'], rank=w['R'], data=before[n].copy(), space=a.space, types=a.types)
                    obs['product'] = prod_a.dot(a).data
                else:
                    w[dst] = a.invert()
                    obs['product'] = a.dot(w[dst]).data
            elif act == 'GetCopy':
                w[dst] = a.get_copy()
                # ... and of an object that wraps memory it cannot write to (a broadcast constant, a read-only table): the copy
                # is an independent, writable array all the same
                ro = MatrixArray(length=w['L'], rank=w['R'], data=np.broadcast_to(np.asarray(a.data[0]), a.data.shape), space=a.space, types=a.types)
                rc = ro.get_copy()
                try:
                    rc *= 2.0
                    obs['ro_copy_ok'] = bool(not np.shares_memory(rc.data, ro.data) and np.array_equal(rc.data, 2.0 * np.asarray(ro.data)))
                except ValueError:
                    obs['ro_copy_ok'] = False
            elif act == 'Wrap':
                w['Z'] = MatrixArray(length=w['L'], rank=w['R'], data=a.data, space=a.space, types=a.types)
            elif act == 'SetItem':
                T = a.types
                k1 = T[l['t1'] - 1] if l['t1'] else 'nosuch'
                k2 = T[l['t2'] - 1] if l['t2'] else 'nosuch'
                vec = np.array([7.0 * (i + 1) / 2.0 for i in range(w['L'])])
                a[k1, k2] = vec
                obs['set_both'] = bool(np.array_equal(a[k1, k2], vec) and np.array_equal(a[k2, k1], vec))
                # the same pair function written the other ways a user writes one (a list, a tuple, a strided view, integers):
                # what numpy accepts as the right-hand side of data[:, i, j] = v.  Same values, so the abstract step is the same.
                wide = np.zeros((w['L'], 3))
                wide[:, 1] = vec
                ivec = np.arange(1, w['L'] + 1) * 7
                for form, val, want in (('list', vec.tolist(), vec), ('tuple', tuple(vec.tolist()), vec), ('view', wide[:, 1], vec),
                                        ('int', ivec, ivec.astype(float)), ('intlist', ivec.tolist(), ivec.astype(float)), ('array', vec, vec)):
                    try:
                        a[k1, k2] = val
                        good = bool(np.array_equal(a[k1, k2], want) and np.array_equal(a[k2, k1], want))
                    except (ValueError, TypeError) as e:
                        good = False
                    if not good:
                        obs.setdefault('set_form', form)
                        a.data[:, a.types.index(k1), a.types.index(k2)] = vec          # keep the walk on the specification's state
                        a.data[:, a.types.index(k2), a.types.index(k1)] = vec
            elif act == 'AugItem':
                T = a.types
                a[T[l['t1'] - 1], T[l['t2'] - 1]] += 1.0           # the statement a user writes
            elif act == 'GetItem':
                T = a.types
                k1 = T[l['t1'] - 1] if l['t1'] else 'nosuch'
                k2 = T[l['t2'] - 1] if l['t2'] else 'nosuch'
                obs['out'] = np.array(a[k1, k2])
            elif act == 'GetIdx':
                obs['out'] = np.array(a.get(l['i'], l['j']))
                obs['exp'] = w['ref'].data(n)[:, l['i'], l['j']].copy()
            elif act == 'GetMatrix':
                obs['out'] = np.array(a.getMatrix(l['l']))
                obs['exp'] = w['ref'].data(n)[l['l']].copy()
            elif act == 'SetMatrix':
                a.setMatrix(l['l'], set_mat(w['R']))
            elif act == 'IterPairs':
                import warnings
                with warnings.catch_warnings(record=True) as caught:
                    warnings.simplefilter('always')
                    it = a.itercurve() if l['deprecated'] else a.iterpairs()
                    obs['visited'] = [(tuple(ij), tuple(tt), np.array(f)) for ij, tt, f in it]
                obs['warned'] = any(issubclass(c.category, DeprecationWarning) for c in caught)
                obs['types'] = list(a.types)
                obs['exp_data'] = w['ref'].data(n).copy()
            else:
                raise MachineryError('unknown action ' + act)
        except AssertionError:
            obs['raises'] = 'AssertionError'
        except ValueError:
            obs['raises'] = 'ValueError'
        obs['before'] = before
        obs['ref_raises'] = w['ref'].step(l)
        # the property leaves the result's space flag open: impose the specification's choice so that
        # later SpaceRule outcomes are determined
        res_name = 'Z' if act == 'Wrap' else dst
        if obs['raises'] == '' and w[res_name] is not None and act in ('Bin', 'Dot', 'Invert', 'GetCopy', 'Wrap'):
            if not l.get('inplace', False):
                w[res_name].space = self.space(w['ref'].obj[res_name][1])
        return obs

    def project(self, w):
        return w

    def diff_obs(self, label, obs):
        out = []
        if obs['raises'] != label['raises']:
            out.append(('SpaceRule' if 'AssertionError' in (obs['raises'], label['raises']) else 'UnknownTypeRaisesValueError',
                        {'expected_raises': label['raises'], 'observed_raises': obs['raises']}))
        if obs.get('set_both') is False:
            out.append(('SetItemSymmetric', {'what': 'a[t1,t2] = v is not readable from both (t1,t2) and (t2,t1)'}))
        if obs.get('set_form'):
            out.append(('SetItemSymmetric.' + obs['set_form'], {'what': 'a[t1,t2] = v with v given as %s (accepted by the array assignment the '
                                                                 'setter is documented to perform) is refused or not readable from both orders' % obs['set_form']}))
        if obs.get('returns_self') is False:
            out.append(('InPlaceReturnsSelf', {}))
        if obs.get('ro_copy_ok') is False:
            out.append(('NoAlias.get_copy', {'what': 'get_copy() of an object that wraps read-only memory shares that memory (or is not writable)'}))
        if obs['ref_raises'] != label['raises']:
            raise MachineryError('reference interpreter disagrees with TLC on raises: %r' % (label,))
        if 'product' in obs and obs['raises'] == '':
            I = np.array([np.eye(obs['product'].shape[1])] * obs['product'].shape[0])
            if np.max(np.abs(obs['product'] - I)) > 1e-9:
                out.append(('InvertIsInverse', {'err': float(np.max(np.abs(obs['product'] - I)))}))
        if label['act'] in ('GetIdx', 'GetMatrix') and label['raises'] == '' and obs['raises'] == '':
            exp = obs['exp']
            if not self.par:          # TLC's exact value is the oracle
                exp = np.array([c[0] / c[1] for c in label['out']]) if label['act'] == 'GetIdx' else \
                    np.array([[c[0] / c[1] for c in row] for row in label['out']])
            if obs['out'].shape != exp.shape or np.max(np.abs(exp - obs['out'])) > 1e-12 * max(1.0, np.max(np.abs(exp))):
                out.append((label['act'] + 'Value', {'expected': exp.tolist(), 'observed': obs['out'].tolist()}))
        if label['act'] == 'IterPairs' and obs['raises'] == '':
            R = obs['exp_data'].shape[1]
            want = [(i, j) for i in range(R) for j in range(R) if i <= j]
            got = [v[0] for v in obs['visited']]
            if got != want:
                out.append(('IterVisitsEachPairOnce', {'expected': want, 'observed': got}))
            else:
                for (i, j), tt, f in obs['visited']:
                    if tt != (obs['types'][i], obs['types'][j]):
                        out.append(('IterTypeNames', {'pair': [i, j], 'observed': list(tt)}))
                        break
                    if f.shape != obs['exp_data'][:, i, j].shape or np.max(np.abs(f - obs['exp_data'][:, i, j])) > 1e-12 * max(1.0, np.max(np.abs(f))):
                        out.append(('IterPairFunction', {'pair': [i, j]}))
                        break
                if not self.par:
                    for q, rec in enumerate(label['out']):
                        exp = np.array([c[0] / c[1] for c in rec['f']])
                        if (rec['i'], rec['j']) != obs['visited'][q][0] or np.max(np.abs(exp - obs['visited'][q][2])) > 1e-12 * max(1.0, np.max(np.abs(exp))):
                            out.append(('IterPairFunction', {'pair': [rec['i'], rec['j']], 'what': 'differs from the specification'}))
                            break
            if bool(label['deprecated']) != obs['warned']:
                out.append(('ItercurveDeprecation', {'deprecated_alias': label['deprecated'], 'warned': obs['warned']}))
        if label['act'] == 'GetItem' and label['raises'] == '' and obs['raises'] == '':
            if not self.par:
                exp = np.array([c[0] / c[1] for c in label['out']])
                if np.max(np.abs(exp - obs['out'])) > 1e-12 * max(1.0, np.max(np.abs(exp))):
                    out.append(('GetItemValue', {'expected': exp.tolist(), 'observed': obs['out'].tolist()}))
        return out

    def diff_state(self, want, w):
        out = []
        ref = w['ref']

        def relerr(a, b):
            return float(np.max(np.abs(a - b))) / max(1.0, float(np.max(np.abs(b))))
        # 1. the reference interpreter must reproduce TLC's exact post-state (validates the oracle used
        #    for parametric replay); on exact instances TLC's rationals are the oracle themselves
        for n in NAMES3:
            wb = want['obj'][n]['buf']
            if (wb == 0) != (ref.obj[n][0] == 0):
                raise MachineryError('reference interpreter: object existence differs from TLC for ' + n)
            if wb and not self.par:
                exp = to_float(want['heap'][wb - 1])
                if relerr(ref.data(n), exp) > 1e-9:
                    raise MachineryError('reference interpreter disagrees with TLC on data of ' + n)
                self.ref_checked += 1
        # 2. real objects: data, sharing, (for X, Y) space
        for n in NAMES3:
            wb = want['obj'][n]['buf']
            o = w[n]
            if wb == 0:
                continue
            if o is None:
                out.append(('ResultExists', {'object': n}))
                continue
            exp = ref.data(n) if self.par else to_float(want['heap'][wb - 1])
            if o.data.shape != exp.shape:
                out.append(('PerMatrix.shape', {'object': n, 'expected': list(exp.shape), 'observed': list(o.data.shape)}))
                continue
            e = relerr(o.data, exp)
            if not np.all(np.isfinite(o.data)) or e > 1e-9:
                out.append(('PerMatrix', {'object': n, 'err': e, 'what': 'data differs from the operation applied matrix by matrix'}))
            if n != 'Z' and o.space.name != want['obj'][n]['space']:
                out.append(('OperandSpaceUnchanged', {'object': n, 'expected': want['obj'][n]['space'], 'observed': o.space.name}))
        bi, bz = w['bystanders']['identity'].data, w['bystanders']['zeros'].data
        if np.any(bz) or not np.array_equal(bi, np.broadcast_to(np.eye(w['R']), bi.shape)):
            out.append(('InPlaceTouchesOnlyLhs.bystander', {'bystander': 'zeros' if np.any(bz) else 'identity',
                                                            'what': 'an object that took part in no operation changed'}))
        for i, n in enumerate(NAMES3):
            for m in NAMES3[i + 1:]:
                if want['obj'][n]['buf'] == 0 or want['obj'][m]['buf'] == 0 or w[n] is None or w[m] is None:
                    continue
                shared_spec = want['obj'][n]['buf'] == want['obj'][m]['buf']
                shared_real = bool(np.shares_memory(w[n].data, w[m].data))
                if shared_real and not shared_spec:
                    out.append(('NoAlias', {'objects': [n, m], 'what': 'objects share memory although the specification gives them distinct buffers'}))
                # sharing the spec has but the code lacks is only observable through later writes
        return out[:3]


def replay_graph(ctx, res, L, R, family, depth, parametric=()):
    g = Graph(res.records.get('EDGE', []), res.records.get('INIT'))
    if not g.n_edges:
        raise MachineryError('no graph exported for ' + family)
    a = MAAdapter(L, R, ctx.seed)
    w = Walker(ctx, g, a, family)
    ne = w.cover_edges(stutter=True)
    ctx.traces += ne
    ctx.stage(family, graph_states=len(g.state), graph_edges=g.n_edges, edges_replayed=ne,
              reference_interpreter_states_checked_against_TLC=a.ref_checked, real_calls=w.steps)
    for (rank, length) in parametric:
        ap = MAAdapter(L, R, ctx.seed + rank * 100 + length, parametric=(rank, length))
        wp = Walker(ctx, g, ap, family + '.param.rank%d.len%d' % (rank, length))
        npaths, complete = wp.all_paths(depth, budget=(60000 if ctx.tier == 'thorough' else 12000))
        ctx.stage(family + '.parametric', rank=rank, length=length, paths=npaths, complete=complete, real_calls=wp.steps)
    return g


def run(ctx):
    thorough = ctx.tier == 'thorough'
    ctx.notes['rule'] = ('TLC enumerates every (object/buffer/space state, operation) pair to the step bound; each exported edge is '
                         'executed on real MatrixArray objects (distinct = distinct (state, operation)); skeleton paths are re-run with '
                         'random data of other ranks/lengths against the TLC-validated reference interpreter')
    ctx.trusted += ['TLC 1.8.0', 'numpy (np.shares_memory, per-matrix dot/inv in the reference interpreter)',
                    'reference interpreter harness/props/c13_matrixarray.py:Ref, validated against TLC post-states in every run']
    ctx.assumptions += ['data well conditioned (diagonally dominated random matrices); comparison 1e-9 relative',
                        'result space flag is not judged (the statement leaves it open)']
    # value / aliasing machine: all operators x operand kinds x objects (self-aliased operands included)
    res = run_tlc('MC_MatrixArray', cfg(1, 2, 2, 'RealOnly', 'ValueNext'), ctx.tmp, seed=ctx.seed)
    require_clean(res, 'MatrixArray values')
    ctx.add_tlc('values L=1 R=2 depth 2', res, exhaustive=True)
    edges = res.records['EDGE']
    ctx.sample({'edge': edges[len(edges) // 2]})
    par = [(1, 1), (2, 2), (3, 3), (3, 5), (5, 64)] if not thorough else [(1, 1), (2, 2), (2, 3), (3, 3), (3, 5), (4, 4), (4, 16), (5, 5), (5, 64)]
    replay_graph(ctx, res, 1, 2, 'replay.values', 2, parametric=par)
    # operand kinds that broadcast over the matrix axes ((R,) and (R,R) arrays), one operation deep, incl. shapes with length == rank
    res = run_tlc('MC_MatrixArray', cfg(1, 2, 1, 'RealOnly', 'KindNext'), ctx.tmp, seed=ctx.seed)
    require_clean(res, 'MatrixArray operand kinds')
    ctx.add_tlc('operand kinds row/mat L=1 R=2 depth 1', res, exhaustive=True)
    replay_graph(ctx, res, 1, 2, 'replay.kinds', 1, parametric=[(2, 2), (3, 3), (4, 4), (2, 5), (5, 2)])
    # accessors by index and iteration, interleaved with the writes they must reflect (also through a shared buffer)
    res = run_tlc('MC_MatrixArray', cfg(2, 2, 2, 'RealOnly', 'AccessNext'), ctx.tmp, seed=ctx.seed)
    require_clean(res, 'MatrixArray accessors')
    ctx.add_tlc('accessors L=2 R=2 depth 2', res, exhaustive=True)
    replay_graph(ctx, res, 2, 2, 'replay.accessors', 2, parametric=[(1, 3), (3, 4)] if not thorough else [(1, 1), (1, 3), (3, 4), (4, 2), (5, 16)])
    # several results of the same left operand alive at once (bound to Z and to Y)
    res = run_tlc('MC_MatrixArray', cfg(1, 2, 3, 'RealOnly', 'DstNext'), ctx.tmp, seed=ctx.seed)
    require_clean(res, 'MatrixArray result names')
    ctx.add_tlc('results bound to Y / Z, L=1 R=2 depth 3', res, exhaustive=True)
    replay_graph(ctx, res, 1, 2, 'replay.dst', 3, parametric=[(3, 4)])
    # space machine: all 3x3 flag pairs x operators
    res = run_tlc('MC_MatrixArray', cfg(1, 2, 1, 'AllSpaces', 'SpaceNext'), ctx.tmp, seed=ctx.seed)
    require_clean(res, 'MatrixArray spaces')
    ctx.add_tlc('space rule: 3x3 flags x operators', res, exhaustive=True)
    replay_graph(ctx, res, 1, 2, 'replay.spaces', 1, parametric=[(3, 4)])
    ctx.sample({'edge': res.records['EDGE'][3]})
    if thorough:
        res = run_tlc('MC_MatrixArray', cfg(2, 2, 2, 'RealOnly', 'ValueNext'), ctx.tmp, seed=ctx.seed, timeout=3000)
        require_clean(res, 'MatrixArray values L=2')
        ctx.add_tlc('values L=2 R=2 depth 2', res, exhaustive=True)
        replay_graph(ctx, res, 2, 2, 'replay.values.L2', 2)
        res = run_tlc('MC_MatrixArray', cfg(1, 2, 5, 'AllSpaces', 'ValueNext'), ctx.tmp, seed=ctx.seed, simulate=400, depth=6, timeout=3000)
        require_clean(res, 'MatrixArray simulate')
        ctx.add_tlc('values+spaces simulate depth 5', res, exhaustive=False)
        replay_graph(ctx, res, 1, 2, 'replay.simulated', 5)
