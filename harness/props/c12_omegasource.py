"""C12 - tabulated omega is used verbatim or rejected, never silently re-gridded.

spec/OmegaSource.tla: a source described relative to the Domain it meets (origin, length relation,
k relation incl. both sides of numpy.allclose's boundary) through the stages constructed ->
calculate -> createPRISM -> first cost evaluation, with MutateCaller interleaved.  TLC checks
NeverFromMismatch, RejectStage, MatchedNeverRejected, VerbatimOnMatch.  The specification is
nondeterministic where the statement leaves the stage of rejection open (one-column files), so the
replay enumerates label sequences and lets the projected state of the real objects select the
successor (NondetWalker).  Direction B: every FromArray/FromFile.calculate event of the
repository's tests and of a driver is validated against Trace_OmegaSource.tla."""
import copy
import os
import warnings

import numpy as np

from harness.core import run_tlc, require_clean, MachineryError
from harness.graph import Graph, NondetWalker, Adapter
from harness import tracecheck

N = 12
CFG = '\n'.join(['INIT MCInit', 'NEXT Next', 'VIEW View', 'CHECK_DEADLOCK FALSE',
                 'INVARIANTS NeverFromMismatch RejectStage MatchedNeverRejected VerbatimOnMatch ProbeRefused',
                 'ACTION_CONSTRAINT Edge', ''])


def matched(s):
    return s['lenRel'] == 'equal' and s['kRel'] in ('none', 'exact', 'within')


def make_domain(cfg, n=N):
    from pyPRISM.core.Domain import Domain
    if cfg == 'dr':
        return Domain(n, dr=0.25)
    if cfg == 'dk':
        return Domain(n, dk=0.1)
    d = Domain(max(n // 2, 1), dr=0.5)
    d.length = n
    d.dr = 0.2
    return d


def regrid_domain(w, r, rng):
    """the Domain the same source meets next: length and spacing chosen so that the source (which matched the
    first grid exactly) stands in relation r to it; realised through the Domain's own setters"""
    n = len(w['k0'])
    m = {'equal': n, 'shorter': int(rng.choice([n + 1, 2 * n])), 'longer': int(rng.choice([n - 1, n // 2]))}[r['lenRel']]
    f = {'none': 1.0, 'exact': 1.0, 'within': 1.0 + 0.4e-5, 'beyond': 1.0 + 2.5e-5, 'rescaled': 1.01}[r['kRel']]
    d = w['domain']
    if m != n:
        d.length = m
    d.dk = w['dk0'] / f if f != 1.0 else w['dk0']
    return d


def source_arrays(src, k, rng):
    """(omega values, k column or None) of a source with the given relation to the domain grid k"""
    n = len(k)
    m = {'equal': n, 'shorter': int(rng.choice([n - 1, n // 2])), 'longer': int(rng.choice([n + 1, 2 * n])), 'one': 1}[src['lenRel']]
    w = rng.uniform(0.1, 5.0, m)
    if src['kRel'] == 'none':
        return w, None
    dk = k[1] - k[0]
    kk = np.concatenate([k, k[-1] + dk * np.arange(1, max(m - n, 0) + 1)])[:m].astype(float)
    rel = src['kRel']
    if rel == 'within':
        kk = kk * (1.0 + 0.4e-5)
    elif rel == 'beyond':
        kk = kk * (1.0 + 2.5e-5)
    elif rel == 'onepoint':
        # ONE value beyond numpy's allclose tolerance (1e-8 + 1e-5 |k_i|): at the lowest wavenumbers that is a tiny absolute
        # difference, at the highest a large one; by a factor 3 of the tolerance or grossly
        i = int(rng.choice([0, 1, int(rng.integers(0, m)), m - 1])) % m
        kk = np.array(kk)
        kk[i] = kk[i] * (1.0 + float(rng.choice([3e-5, 1e-3]))) + 3e-8
    elif rel == 'rescaled':
        kk = kk * 1.01
    elif rel == 'shifted':
        # half a grid spacing, or a uniform shift just beyond the tolerance at the lowest wavenumber (far within it at the highest)
        kk = kk + (0.5 * dk if rng.random() < 0.5 else 3e-5 * kk[0] + 3e-8)
    elif rel == 'nan':
        kk = np.array(kk)
        kk[int(rng.integers(0, m))] = np.nan
    return w, kk


def write_file(path, w, kk):
    with open(path, 'w') as fh:
        fh.write('# omega table\n')
        for i in range(len(w)):
            if kk is None:
                fh.write('%.17g\n' % w[i])
            else:
                fh.write('%.17g %.17g\n' % (kk[i], w[i]))


class OmegaAdapter(Adapter):
    module = 'OmegaSource'

    def __init__(self, ctx, seed):
        self.ctx = ctx
        self.seed = seed
        self.nfile = 0

    def new(self, st):
        import pyPRISM
        import zlib
        src = st['src']
        rng = np.random.default_rng([self.seed, zlib.crc32(repr(sorted(src.items())).encode()), st['rank'], len(st['dom'])])
        dom = make_domain(st['dom'])
        k = np.array(dom.k)
        w, kk = source_arrays(src, k, rng)
        data = np.array(w)
        world = {'src': src, 'dom': st['dom'], 'rank': st['rank'], 'domain': dom, 'k': k, 'k0': np.array(k), 'dk0': float(dom.dk), 'regridded': False, 'rng': rng, 'data': data, 'kdata': None if kk is None else np.array(kk),
                 'stage': 'constructed', 'mutated': False, 'prism': None, 'sys': None, 'caller': None, 'caller_k': None, 'init': st, 'hist': []}
        if src['origin'] in ('array', 'arrayk'):
            # what callers hand over: arrays for most, a plain list now and then
            caller = np.array(w)
            caller_k = None if kk is None else np.array(kk)
            if src['origin'] == 'array' and src['lenRel'] == 'shorter' and 2 * len(caller) == len(k) and rng.random() < 0.6:
                # too few points, handed over as the whole two-column [k, omega] table (an array or a list of rows): the TOTAL number
                # of entries equals the number of grid points, the number of tabulated POINTS does not
                table = np.column_stack([k[:len(caller)], caller])
                world['obj'] = pyPRISM.omega.FromArray(table if rng.random() < 0.5 else table.tolist())
            elif src['origin'] == 'array':
                world['obj'] = pyPRISM.omega.FromArray(caller if rng.random() < 0.8 else list(caller))
            else:
                world['obj'] = pyPRISM.omega.FromArray(caller, k=caller_k)
            world['caller'], world['caller_k'] = caller, caller_k
        else:
            self.nfile += 1
            path = os.path.join(self.ctx.tmp, 'omega_%d.txt' % self.nfile)
            write_file(path, w, kk)
            world['obj'] = pyPRISM.omega.FromFile(path)
        return world

    def clone(self, w):
        """a deep copy could lose (or invent) sharing between the caller's array and the source object, which is
        exactly what NoLeakFromCaller is about: rebuild the world by re-running its (deterministic) history"""
        c = self.new(w['init'])
        for l in w['hist']:
            self._step(c, l)
            c['hist'].append(l)
        return c

    def step(self, w, l):
        obs = self._step(w, l)
        w['hist'].append(l)
        obs['_w'] = {'source': w['src'], 'domain': w['dom'], 'rank': w['rank'], 'mutated': w['mutated'], 'points': int(len(w['data'])),
                     'grid_points': int(len(w['k']))}
        return obs

    def _step(self, w, l):
        act = l['act']
        if act == 'MutateCaller':
            w['caller'][...] = -7.0
            if w['caller_k'] is not None:
                w['caller_k'][...] = w['caller_k'] * 3.0 + 1.0
            w['mutated'] = True
            return {}
        if act == 'Regrid':
            r = {'origin': w['src']['origin'], 'lenRel': l['lenRel'], 'kRel': l['kRel']}
            d = regrid_domain(w, r, w['rng'])
            w['k'] = np.array(d.k)
            w['src'] = r
            w['stage'] = 'constructed'
            w['regridded'] = True
            w['prism'] = None
            w['sys'] = None
            return {}
        if act == 'Calculate':
            k = np.array(w['k'])
            # once a System holds the source, the object the user reaches is the System's (sys.omega[a, a])
            obj = w['obj'] if w['sys'] is None else w['sys'].omega['A', 'A']
            was = w['stage']
            try:
                with np.errstate(all='ignore'):
                    ret = obj.calculate(k)
            except Exception as ex:     # the statement says "raises an error"; the class is not fixed
                w['stage'] = 'rejected'
                return {'ret': 'raises', '_class': type(ex).__name__}
            w['stage'] = was if was in ('built', 'evaluated') else 'calculated'
            out = {'ret': self.verbatim(w, ret), '_k_untouched': bool(np.array_equal(k, w['k']))}
            if w['src']['origin'] in ('file1', 'file2') and isinstance(ret, np.ndarray):
                # the values read from a FILE are handed to the caller, who may scale them in place (omega *= rho); the file is the
                # stored data: the next evaluation returns it unchanged.  (FromArray documents nothing of the kind: its calculate
                # returns the stored array itself in the shipped code, so arrays are left alone here.)
                try:
                    ret[...] = -7.0
                except (ValueError, TypeError):
                    pass
            return out
        if act == 'Probe':
            k = np.array(w['k'], dtype=float)
            n = len(k)
            kr = l['kRel']
            if kr == 'onepoint':
                i = int(w['rng'].choice([0, 1, n // 2, n - 2, n - 1])) % n
                k[i] = k[i] * (1.0 + float(w['rng'].choice([3e-5, 1e-3]))) + 3e-8
            elif kr == 'shifted':
                k = k + (0.5 * (k[1] - k[0]) if w['rng'].random() < 0.5 else 3e-5 * k[0] + 3e-8)
            elif kr == 'nan':
                k[int(w['rng'].integers(0, n))] = np.nan
            else:               # same first and last wavenumber, the same number of points, other values in between
                t = np.linspace(0.0, 1.0, n)
                k = k[0] + (k[-1] - k[0]) * t ** 1.25
            obj = w['obj'] if w['sys'] is None else w['sys'].omega['A', 'A']
            try:
                with np.errstate(all='ignore'):
                    ret = obj.calculate(k)
            except Exception as ex:
                return {'ret': 'raises', '_class': type(ex).__name__}
            return {'ret': 'returned', '_probe': kr, '_max_dev': float(np.nanmax(np.abs(k - w['k'])))}
        if act == 'Build':
            return self.build(w)
        if act == 'Evaluate':
            P = w['prism']
            try:
                with np.errstate(all='ignore'), warnings.catch_warnings():
                    warnings.simplefilter('ignore')
                    y = P.cost(np.zeros(P.sys.rank * P.sys.rank * P.sys.domain.length))
            except Exception as ex:
                w['stage'] = 'rejected'
                return {'ret': 'raises', '_class': type(ex).__name__}
            w['stage'] = 'evaluated'
            return {'ret': 'finite' if np.all(np.isfinite(y)) else 'nonfinite'}
        raise MachineryError(act)

    def verbatim(self, w, ret):
        got = np.asarray(ret)
        if got.shape == w['data'].shape and got.dtype == w['data'].dtype and np.array_equal(got, w['data']):
            return 'verbatim'
        if w['mutated'] and got.shape == w['caller'].shape and np.array_equal(got, w['caller']):
            return 'leaked'
        return 'changed'

    def build(self, w):
        import pyPRISM
        T = ['A', 'B'][:w['rank']]
        if w['sys'] is not None:
            return self.create(w, w['sys'])         # the same System again (a sweep step)
        s = pyPRISM.System(T, kT=1.0)
        s.domain = copy.deepcopy(w['domain'])
        for i, t in enumerate(T):
            s.density[t] = 0.25 * (i + 1)
            s.diameter[t] = 1.0
        s.potential[T, T] = pyPRISM.potential.HardSphere()
        s.closure[T, T] = pyPRISM.closure.PercusYevick()
        s.omega[T, T] = pyPRISM.omega.NoIntra()
        if w['rank'] == 2:
            s.omega['B', 'B'] = pyPRISM.omega.SingleSite()
        s.omega['A', 'A'] = w['obj']
        w['sys'] = s
        return self.create(w, s)

    def create(self, w, s):
        import pyPRISM
        try:
            with warnings.catch_warnings():
                warnings.simplefilter('ignore')
                P = s.createPRISM()
        except Exception as ex:
            w['stage'] = 'rejected'
            return {'ret': 'raises', '_class': type(ex).__name__}
        w['prism'] = P
        w['stage'] = 'built'
        got = np.asarray(P.omega.data)[:, 0, 0]
        want = w['data'] * 0.25
        if got.shape == want.shape and np.array_equal(got, want):
            return {'ret': 'verbatim'}
        if w['mutated'] and got.shape == w['caller'].shape and np.array_equal(got, w['caller'] * 0.25):
            return {'ret': 'leaked'}
        return {'ret': 'changed'}

    def project_checked(self, w):
        st = {'src': w['src'], 'dom': w['dom'], 'rank': w['rank'], 'stage': w['stage'], 'mutated': w['mutated'], 'regridded': w['regridded']}
        src = w['src']
        problems = []
        det = {'source': src, 'domain': w['dom'], 'rank': w['rank'], 'stage': w['stage'], 'points': int(len(w['data'])), 'grid_points': int(len(w['k']))}
        if w['stage'] == 'rejected' and matched(src):
            problems.append(('MatchedNeverRejected', det))
        if w['stage'] in ('calculated', 'built') and not matched(src) and src['origin'] != 'file1':
            problems.append(('RejectStage', det))
        if w['stage'] == 'evaluated' and not matched(src):
            problems.append(('NeverFromMismatch', det))
        return st, problems

    def diff_obs(self, l, obs):
        out = []
        if l['act'] in ('Calculate', 'Build') and obs.get('ret') in ('leaked', 'changed') and l.get('ret') == 'verbatim' \
                and matched(obs['_w']['source']):       # VerbatimOnMatch speaks of matching data only
            out.append(('NoLeakFromCaller' if obs['ret'] == 'leaked' else 'VerbatimOnMatch', dict(obs['_w'], observed=obs['ret'])))
        if l['act'] == 'Probe' and obs.get('ret') != 'raises':
            out.append(('ProbeRefused', dict(obs['_w'], probe=obs.get('_probe'), max_k_deviation=obs.get('_max_dev'),
                                             what='calculate(k) returned values for a k array that differs from the k column beyond the tolerance')))
        if l['act'] == 'Evaluate' and obs.get('ret') == 'nonfinite':
            out.append(('EvaluateFinite', {'observed': 'non-finite cost on matching data'}))
        if obs.get('_k_untouched') is False:
            out.append(('DoesNotModifyK', {}))
        return out


class OmegaWalker(NondetWalker):
    """the label of an edge carries the outcome (ret); sequences of ACTIONS are enumerated and the
    outcome is the real object's: group the edges by action name"""

    def __init__(self, ctx, graph, adapter, family):
        NondetWalker.__init__(self, ctx, graph, adapter, family)
        from harness.graph import key_of
        self.by_label = {}
        for k, outs in graph.out_list.items():
            d = {}
            for label, tk in outs:
                if label['act'] in ('Regrid', 'Probe'):
                    d.setdefault(key_of(label), (label, []))[1].append(tk)
                    continue
                d.setdefault(label['act'], ({'act': label['act'], 'ret': 'verbatim' if label['act'] in ('Calculate', 'Build') else label.get('ret')}, []))[1].append(tk)
            self.by_label[k] = [d[x] for x in sorted(d)]


def run(ctx):
    thorough = ctx.tier == 'thorough'
    ctx.notes['rule'] = ('every source description (origin x length relation x k relation) x Domain configuration x rank and every order '
                         'of MutateCaller / Calculate / Build / Evaluate exported by TLC; each action sequence is executed on real '
                         'FromArray/FromFile objects, files and Systems; distinct = (state, action) pairs executed')
    ctx.trusted += ['TLC 1.8.0', 'harness/graph.py NondetWalker', 'text files written with %.17g (exact round trip of float64)']
    ctx.assumptions += ['the class of the exception raised on mismatch is not judged', 'allclose boundary probed at 0.4x and 2.5x its relative tolerance']
    res = run_tlc('MC_OmegaSource', CFG, ctx.tmp, seed=ctx.seed)
    require_clean(res, 'OmegaSource')
    ctx.add_tlc('OmegaSource', res, exhaustive=True)
    g = Graph(res.records['EDGE'], res.records.get('INIT'))
    ctx.sample({'edge': res.records['EDGE'][5]})
    for rep in range(12 if thorough else 1):
        ad = OmegaAdapter(ctx, ctx.seed + rep)
        w = OmegaWalker(ctx, g, ad, 'replay.OmegaSource.%d' % rep)
        npaths, complete = w.all_label_paths(4, budget=60000 if thorough else 12000)
        nr = w.random_label_walks(2000 if thorough else 400, 8, ctx.seed + rep)
        ctx.stage('replay.OmegaSource', repetition=rep, graph_states=len(g.state), graph_edges=g.n_edges, action_sequences=npaths,
                  complete=complete, random_walks=nr, real_calls=w.steps, edges_hit=len(w.edges_hit))
    # direction B
    ev1, i1 = tracecheck.record_pytest(ctx, ['FromArray_test.py', 'FromFile_test.py', 'System_test.py', 'PRISM_test.py'], 'suite_omega')
    ev2, i2 = tracecheck.record_driver(ctx, 'omega_driver', [ctx.seed, 400 if thorough else 80], 'driver_omega')
    tracecheck.omega_traces(ctx, [('suite', ev1, i1), ('driver', ev2, i2)])
