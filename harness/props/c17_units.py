"""C17 - UnitConverter: every documented conversion returns the textbook magnitude.

spec/Units.tla: the six formulas as terms with the unit factors of the configuration resolved by TLC;
TLC checks Defined, LinearOrAffine, CelsiusIsKelvinMinus27315, NanometerIsTenTimesAngstrom and the
definition identities (constants as arbitrary rationals), CallsArePure.  The converter machine
(Construct(length unit, energy unit); Call(method, argument kind)) is replayed on the real class for
several characteristic values: no method raises, magnitudes equal the evaluated term (exact SI kB, NA,
eV), the unit is the documented one, arrays are converted elementwise, the converter is unchanged."""
import math

import numpy as np

from harness.core import run_tlc, require_clean, MachineryError
from harness.graph import Graph, Walker, Adapter
from harness import termeval

LEVEL = 'model_checking'
CFG = '\n'.join(['INIT MCInit', 'NEXT Next', 'VIEW View', 'CHECK_DEADLOCK FALSE', 'PROPERTIES CallsArePure', 'ACTION_CONSTRAINT Edge', ''])
SI = {'kB': 1.380649e-23, 'NA': 6.02214076e23, 'eV': 1.602176634e-19, 'pi': math.pi}      # exact SI 2019 values
PINT_UNIT = {'nanometer': 'nanometer', 'angstrom': 'angstrom', 'micrometer': 'micrometer',
             'kilojoule_per_mole': 'kilojoule/mole', 'joule_per_mole': 'joule/mole', 'kilocalorie_per_mole': 'kilocalorie/mole',
             'joule': 'joule', 'electron_volt': 'electron_volt'}
# pint's thermochemical calorie is exactly 4.184 J
UNIT_DIM = {'kelvin': 'kelvin', 'degree_Celsius': 'degree_Celsius', '1/angstrom': '1/angstrom', '1/nanometer': '1/nanometer',
            'mole/liter': 'mole/liter', 'dimensionless': 'dimensionless'}


class UnitsAdapter(Adapter):
    module = 'Units'

    def __init__(self, dc, ec, seed):
        self.dc, self.ec = dc, ec
        self.rng = np.random.default_rng(seed)

    def new(self, st):
        return {'uc': None, 'lu': 'none', 'eu': 'none'}

    def clone(self, w):
        return dict(w)          # the converter is immutable by specification (CallsArePure is checked below)

    def step(self, w, l):
        import pyPRISM
        if l['act'] == 'Construct':
            ec = self.ec * (1e-21 if l['eu'] in ('joule',) else 1.0) * (0.01 if l['eu'] == 'electron_volt' else 1.0)
            w['uc'] = pyPRISM.util.UnitConverter(dc=self.dc, dc_unit=PINT_UNIT[l['lu']], ec=ec, ec_unit=PINT_UNIT[l['eu']])
            w['lu'], w['eu'], w['ecv'] = l['lu'], l['eu'], ec
            return {}
        if l['act'] == 'Call':
            return self.call(w, l)
        raise MachineryError(l['act'])

    def call(self, w, l):
        uc = w['uc']
        m, ak = l['method'], l['arg']
        if ak == 'scalar':
            x = float(self.rng.uniform(0.05, 3.0))
        elif ak == 'int':
            x = int(self.rng.integers(1, 5))
        elif self.rng.uniform() < 0.35:
            x = self.rng.integers(1, 6, 7)          # an array of whole numbers (T* = 1, 2, 3, ...): integer dtype
        else:
            x = self.rng.uniform(0.05, 3.0, 7)
        d = float(self.rng.choice([0.8, 1.25, 2.0]))        # the site diameter is an ARGUMENT: another one at every call
        before = (str(uc.dc.to_base_units()), str(uc.ec.to_base_units()))
        x0 = np.array(x, dtype=float)           # the argument as the caller sees it before the call
        try:
            ret = getattr(uc, m)(x, d) if m == 'toVolumeFraction' else getattr(uc, m)(x)
            again = None
            if ak == 'array':
                # the same array converted a second time (users convert Domain.k to several units)
                again = getattr(uc, m)(x, d) if m == 'toVolumeFraction' else getattr(uc, m)(x)
        except Exception as ex:
            return {'raises': '%s: %s' % (type(ex).__name__, str(ex)[:160])}
        env = dict(SI)
        env.update({'x': x0, 'd': d, 'dc': self.dc, 'ec': w['ecv']})
        for k, t in l['unitenv'].items():
            env[k] = float(termeval.ev(t, {}))
        want = np.asarray(termeval.ev(l['magnitude'], env), dtype=float)
        bad = []
        det = {'method': m, 'arg': ak, 'length_unit': w['lu'], 'energy_unit': w['eu'], 'dc': self.dc, 'ec': w['ecv']}
        mag = getattr(ret, 'magnitude', None)
        if mag is None:
            return {'raises': 'none', '_bad': [('ReturnsQuantity', dict(det, observed=type(ret).__name__))]}
        got = np.asarray(mag, dtype=float)
        if got.shape != want.shape:
            bad.append(('Elementwise', dict(det, expected_shape=list(want.shape), observed_shape=list(got.shape))))
        else:
            err = np.max(np.abs(got - want) / np.maximum(np.abs(want), 1e-300))
            # Celsius: the subtraction of 273.15 amplifies rounding relative to the result
            tol = 1e-12 * (1.0 + (273.15 / max(float(np.min(np.abs(want))), 1e-9) if m == 'toCelcius' else 0.0))
            if not err <= tol:
                bad.append(('Magnitude.%s' % m, dict(det, expected=np.ravel(want)[:3].tolist(), observed=np.ravel(got)[:3].tolist(), rel_err=float(err))))
        # the unit is the documented one: converting to it is the identity
        try:
            same = ret.to(UNIT_DIM[l['unit']]) if l['unit'] != 'dimensionless' else ret.to('dimensionless')
            if not np.allclose(np.asarray(same.magnitude, dtype=float), got, rtol=1e-13, atol=0):
                bad.append(('Unit.%s' % m, dict(det, expected=l['unit'], observed=str(ret.units))))
        except Exception as ex:
            bad.append(('Unit.%s' % m, dict(det, expected=l['unit'], observed=str(getattr(ret, 'units', '?')), error=str(ex)[:100])))
        if ak == 'array':
            if not np.array_equal(np.asarray(x, dtype=float), x0):
                bad.append(('ArgumentUnmodified.%s' % m, dict(det, detail='the array handed to the conversion was changed in place')))
            g2 = np.asarray(getattr(again, 'magnitude', np.nan), dtype=float)
            if g2.shape != want.shape or not np.allclose(g2, want, rtol=1e-9, atol=0):
                bad.append(('Magnitude.%s.second_call' % m, dict(det, detail='converting the same array again gives another result')))
        if before != (str(uc.dc.to_base_units()), str(uc.ec.to_base_units())):
            bad.append(('CallsArePure', det))
        return {'raises': 'none', '_bad': bad}

    def project(self, w):
        return {'conv': {'lu': w['lu'], 'eu': w['eu']}}

    def diff_obs(self, l, obs):
        if l['act'] != 'Call':
            return []
        if obs['raises'] != 'none':
            return [('Total.%s' % l['method'], {'method': l['method'], 'arg': l['arg'], 'observed': obs['raises'],
                                               'detail': 'documented conversion raised for valid numeric input'})]
        return obs.get('_bad', [])


def run(ctx):
    thorough = ctx.tier == 'thorough'
    ctx.notes['rule'] = ('converter configurations (3 length units x 5 energy units) x 6 methods x 3 argument kinds exported by TLC, each executed '
                         'on the real class per characteristic-value set; distinct = (configuration, method, argument kind, value set)')
    ctx.trusted += ['TLC 1.8.0', 'harness/termeval.py', 'exact SI 2019 values of k_B, N_A, e typed into the harness', 'pint unit parsing of the target units']
    ctx.assumptions += ['relative tolerance 1e-12 (Celsius: scaled by 273.15/|result|)', 'thermochemical calorie (4.184 J) as in pint']
    res = run_tlc('MC_Units', CFG, ctx.tmp, seed=ctx.seed)
    require_clean(res, 'Units')
    ctx.add_tlc('Units', res, exhaustive=True)
    g = Graph(res.records['EDGE'], res.records.get('INIT'))
    ctx.sample({'edge': [e for e in res.records['EDGE'] if e['l']['act'] == 'Call'][3]})
    sets = [(1.5, 2.48), (1.0, 1.0)] + ([(0.34, 0.996), (25.0, 40.0), (3.7e-3, 1e3), (7.0, 0.01), (1.0, 300.0), (123.4, 5.6), (0.5, 0.5)] if thorough else [])
    for dc, ec in sets:
        w = Walker(ctx, g, UnitsAdapter(dc, ec, ctx.seed), 'replay.Units.dc%g.ec%g' % (dc, ec))
        ne = w.cover_edges(stutter=True)
        npaths, complete = w.all_paths(3 if thorough else 2)
        ctx.stage('replay.Units', dc=dc, ec=ec, graph_states=len(g.state), graph_edges=g.n_edges, edges_replayed=ne, paths=npaths, real_calls=w.steps)
