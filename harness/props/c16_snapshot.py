"""C16 - a PRISM object is a faithful, isolated snapshot of a fully specified System.

spec/SystemLife.tla: configuration items with version ids, PRISM objects as frozen snapshots.
TLC checks CreateRaisesIffIncomplete, NeverStartsOnPartialSystem, SystemUntouchedByCreateSolve,
SnapshotFrozen, SnapshotFaithful, SweepEqualsFresh on (1) all Systems with up to two items
missing, filled step by step, and (2) all edit / create / solve histories of a complete System to
a bounded depth.  Replay maps version ids to concrete parameters and, after EVERY step, checks
the user's System (deep fingerprint) and the wiring of EVERY live PRISM object against a fresh
potential / omega built from that object's snapshot; solved results against a freshly built
System with the snapshot's parameters."""
import copy
import math
import random
import warnings

import numpy as np

from harness.core import run_tlc, require_clean, MachineryError
from harness.graph import Graph, Walker, Adapter
from harness import systems, tracecheck

T = ['B', 'A']          # the type list is NOT in alphabetical order
DOMAINS = {1: (256, 0.125), 2: (512, 0.0625)}
VERS = {
    'rho.A': {1: 0.3, 2: 0.35}, 'rho.B': {1: 0.2, 2: 0.25},
    'd.A': {1: 1.0, 2: 1.25}, 'd.B': {1: 1.0, 2: 1.25, 3: 1.1},        # 1.1 is not a grid point of either domain
    'pot.AA': {1: ['HardSphere'], 2: ['HardCoreLennardJones', 0.2]},
    'pot.AB': {1: ['HardSphere'], 2: ['Exponential', 0.25, 0.5, {'sigma': 0.875}]},      # explicit sigma != (d_a+d_b)/2
    'pot.BB': {1: ['HardSphere'], 2: ['Exponential', 0.1, 0.5]},
    'clo.AA': {1: ['PY'], 2: ['HNC']}, 'clo.AB': {1: ['PY'], 2: ['HNC']}, 'clo.BB': {1: ['PY'], 2: ['HNC']},
    'om.AA': {1: ['SingleSite'], 2: ['Gaussian', 1.0, 4]},
    'om.AB': {1: ['NoIntra'], 2: ['Diblock', 'AB', 1.0, 1, 1]},
    'om.BB': {1: ['SingleSite'], 2: ['FJC', 3, 1.0]},
    'kT': {1: 1.0, 2: 1.25},
    'sig.AB': {1: 0.0, 2: 0.125},       # contact distance of the cross pair: arithmetic mean + this (2 = a non-additive mixture)
}
PAIRKEY = {'AA': ('A', 'A'), 'AB': ('A', 'B'), 'BB': ('B', 'B')}


def cfg_text(editable, maxmissing, maxprisms, maxsteps, nxt, edge=True):
    return '\n'.join([
        'CONSTANTS Items <- MC_Items', 'Optional <- MC_Optional', 'Editable <- %s' % editable, 'Resets <- MC_Resets', 'Needs <- MC_Needs', 'Versions <- MC_Versions', 'Warnings <- MC_Warnings',
        'MaxMissing = %d' % maxmissing, 'MaxPrisms = %d' % maxprisms, 'MaxSteps = %d' % maxsteps,
        'INIT MCInit', 'NEXT %s' % nxt, 'VIEW View', 'CHECK_DEADLOCK FALSE',
        'INVARIANTS CreateRaisesIffIncomplete NeverStartsOnPartialSystem SnapshotFaithful SweepEqualsFresh',
        'PROPERTIES SystemUntouchedByCreateSolve SnapshotFrozen',
        'ACTION_CONSTRAINT %s' % ('Edge' if edge else 'NoEdge'), ''])


def fingerprint(o, depth=0):
    """deep, identity-free description of an object graph (class names, attributes, array bytes)"""
    if depth > 8:
        return '...'
    if isinstance(o, np.ndarray):
        return ('nd', o.shape, o.tobytes())
    if isinstance(o, (int, float, str, bool, type(None), np.generic)):
        return repr(o)
    if isinstance(o, (list, tuple)):
        return tuple(fingerprint(x, depth + 1) for x in o)
    if isinstance(o, dict):
        return tuple(sorted((str(k), fingerprint(v, depth + 1)) for k, v in o.items()))
    if callable(o) and not hasattr(o, '__dict__'):
        return 'callable'
    d = getattr(o, '__dict__', None)
    if d is None:
        return repr(type(o))
    # the PUBLIC state: attributes without a leading underscore plus the values of public properties (Domain keeps length, dr, dk
    # behind properties).  A private cache that a call leaves on an object is not "a modification of the System" - if it
    # changes any behaviour the other clauses (wiring, SweepEqualsFresh, later creations) see it
    items = {k: v for k, v in d.items() if not k.startswith('_')}
    for k in dir(type(o)):
        if not k.startswith('_') and isinstance(getattr(type(o), k, None), property):
            try:
                items[k] = getattr(o, k)
            except Exception as ex:      # noqa
                items[k] = 'raises ' + type(ex).__name__
    return (type(o).__name__,) + tuple(sorted((k, fingerprint(v, depth + 1)) for k, v in items.items()
                                              if not (callable(v) and not hasattr(v, 'calculate'))))


def sys_from_cfg(c):
    """the systems.py description of a complete abstract configuration"""
    n, dr = DOMAINS[c['domain']]
    extra = VERS['sig.AB'][c.get('sig.AB', 1)]
    over = {'A-B': (VERS['d.A'][c['d.A']] + VERS['d.B'][c['d.B']]) / 2.0 + extra} if extra else {}
    return {'types': list(T), 'kT': VERS['kT'][c['kT']], 'dr': dr, 'length': n, 'sigma_override': over,
            'rho': {t: VERS['rho.' + t][c['rho.' + t]] for t in T},
            'diam': {t: VERS['d.' + t][c['d.' + t]] for t in T},
            'pot': {'%s-%s' % PAIRKEY[p]: VERS['pot.' + p][c['pot.' + p]] for p in PAIRKEY},
            'clo': {'%s-%s' % PAIRKEY[p]: VERS['clo.' + p][c['clo.' + p]] for p in PAIRKEY},
            'omega': {'%s-%s' % PAIRKEY[p]: VERS['om.' + p][c['om.' + p]] for p in PAIRKEY}}


class SysAdapter(Adapter):
    module = 'SystemLife'

    def __init__(self, seed, do_solves=True):
        self.rng = random.Random(seed)
        self.seed = seed
        self.ref = {}          # cfg key -> reference g(r) of a freshly built System
        self.do_solves = do_solves
        self.solves = 0
        self.unconverged = 0

    def new(self, state):
        import pyPRISM
        s = pyPRISM.System(list(T))       # kT has a default (1.0) = version 1
        w = {'sys': s, 'prisms': [], 'results': [], 'init': state, 'hist': []}
        for item, v in sorted(state['cfg'].items()):
            if v and item not in ('kT', 'sig.AB'):
                self.edit(w, item, v)
        if state['cfg'].get('sig.AB', 1) == 2:
            self.edit(w, 'sig.AB', 2)
        return w

    def clone(self, w):
        """A deep copy of (System, PRISM objects) turns numpy VIEWS into independent arrays and so would hide any memory a
        PRISM object shares with the System it was created from - the very thing SnapshotFrozen is about.  Histories are
        short and deterministic: rebuild the world by re-running them on fresh objects."""
        c = self.new(w['init'])
        for l in w['hist']:
            self._step(c, l)
            c['hist'].append(l)
        return c

    def coin(self, w, *key):
        """deterministic coin per (history position, key): the re-run of a history takes the same decisions"""
        import zlib
        return zlib.crc32(repr((self.seed, len(w['hist']), key)).encode()) & 1

    def edit(self, w, item, v):
        import pyPRISM
        s = w['sys']
        kind, _, which = item.partition('.')
        if item == 'kT':
            s.kT = VERS['kT'][v]
        elif item == 'domain':
            n, dr = DOMAINS[v]
            if s.domain is not None and self.coin(w, 'domain', v):
                s.domain.length = n          # in-place reconfiguration of the existing Domain
                s.domain.dr = dr
            else:
                s.domain = pyPRISM.Domain(length=n, dr=dr)
        elif kind == 'sig':
            a, b = PAIRKEY[which]
            if self.coin(w, item, v):
                a, b = b, a
            s.diameter.sigma[a, b] = (s.diameter[PAIRKEY[which][0]] + s.diameter[PAIRKEY[which][1]]) / 2.0 + VERS[item][v]
        elif kind == 'rho':
            s.density[which] = VERS[item][v]
        elif kind == 'd':
            s.diameter[which] = VERS[item][v]
        else:
            a, b = PAIRKEY[which]
            if self.coin(w, item, v):
                a, b = b, a
            if kind == 'pot':
                s.potential[a, b] = systems.make_potential(VERS[item][v])
            elif kind == 'clo':
                s.closure[a, b] = systems.make_closure(VERS[item][v])
            elif kind == 'om':
                spec = VERS[item][v]
                if spec[0] == 'Diblock':
                    # tabulated omega must match the domain's k grid: built lazily at create time instead
                    s.omega[a, b] = _LazyDiblock(spec)
                else:
                    s.omega[a, b] = systems.make_omega(spec)

    def step(self, w, l):
        obs = self._step(w, l)
        w['hist'].append(l)
        return obs

    def _step(self, w, l):
        act = l['act']
        s = w['sys']
        obs = {'raises': ''}
        if act == 'Edit':
            self.edit(w, l['item'], l['ver'])
            return obs
        if act == 'CopySystem':
            w['sys'] = copy.deepcopy(s)
            return obs
        if act == 'Drop':
            w['prisms'].pop(0)
            w['results'].pop(0)
            return obs
        # the state before the call is read off a deep copy: reading the System itself (every property of every object) could
        # trigger - and so hide - anything an implementation evaluates lazily on access
        before = fingerprint(copy.deepcopy(s))
        with warnings.catch_warnings(record=True) as caught:
            warnings.simplefilter('always')
            try:
                if act == 'CreatePRISM':
                    p = s.createPRISM()
                    w['prisms'].append(p)
                    w['results'].append(None)
                elif act == 'SysSolve':
                    if not self.do_solves:
                        p = s.createPRISM()
                        res = None
                    else:
                        # System.solve forwards guess / method / options to PRISM.solve: with the default arguments, or with the
                        # (equivalent) all-zero guess handed over explicitly, by keyword or by position - a warm start is still a
                        # solve of a SNAPSHOT
                        how = (self.coin(w, 'solve', 0), self.coin(w, 'solve', 1))
                        if how[0] == 0:
                            p = s.solve(options={'disp': False, 'maxiter': 400})
                        else:
                            g0 = np.zeros(len(T) * len(T) * int(s.domain.length))
                            p = s.solve(g0, options={'disp': False, 'maxiter': 400}) if how[1] else s.solve(guess=g0, options={'disp': False, 'maxiter': 400})
                            if np.any(g0):
                                obs['guess_modified'] = True
                        self.solves += 1
                        res = p.minimize_result
                    w['prisms'].append(p)
                    w['results'].append(res)
                elif act == 'PrismSolve':
                    p = w['prisms'][l['n'] - 1]
                    if self.do_solves:
                        res = p.solve(options={'disp': False, 'maxiter': 400})
                        self.solves += 1
                        w['results'][l['n'] - 1] = res
                else:
                    raise MachineryError('unknown action ' + act)
            except ValueError as ex:
                obs['raises'] = 'ValueError'
                obs['message'] = str(ex)
            except MachineryError:
                raise
            except Exception as ex:
                obs['raises'] = type(ex).__name__
                obs['message'] = str(ex)
        obs['system_untouched'] = fingerprint(s) == before
        # what check() warned about: 'Diameter for site X = ...' / 'Sigma for pair X-Y = ...'
        import re
        tags = []
        for c in caught:
            m = re.match(r'Diameter for site (\S+) = ', str(c.message))
            if m:
                tags.append('d.' + m.group(1))
            m = re.match(r'Sigma for pair (\S+)-(\S+) = ', str(c.message))
            if m:
                tags.append('s.' + ''.join(sorted(m.groups())))
        obs['warns'] = sorted(set(tags))       # a cross pair is visited in both orientations: the SET of lengths warned about
        return obs

    def project(self, w):
        return w

    def diff_obs(self, label, obs):
        out = []
        if obs['raises'] != label['raises']:
            out.append(('CreateRaisesIffIncomplete', {'expected_raises': label['raises'], 'observed_raises': obs['raises'],
                                                      'message': obs.get('message', ''), 'missing': label.get('missing')}))
        if obs.get('system_untouched') is False:
            out.append(('SystemUntouchedByCreateSolve', {'what': 'the System differs (deep comparison) after %s' % label['act']}))
        if obs.get('guess_modified'):
            out.append(('SystemUntouchedByCreateSolve', {'what': "the caller's guess array was modified by System.solve"}))
        if 'warns' in label and obs['raises'] == '' and sorted(label['warns']) != obs.get('warns'):
            out.append(('WarnsIffOffGrid', {'expected': sorted(label['warns']), 'observed': obs.get('warns'),
                                            'what': 'check() warns about exactly the diameters and contact distances that are not grid points'}))
        return out

    # ------------------------------------------------------------------------------
    def expected_wiring(self, snap):
        sc = sys_from_cfg(snap)
        n, dr = sc['length'], sc['dr']
        r = np.arange(1, n + 1) * dr
        k = np.arange(1, n + 1) * (math.pi / (dr * n))
        out = {'r': r, 'k': k, 'kT': sc['kT'], 'pairs': {}}
        for p, (a, b) in PAIRKEY.items():
            key = '%s-%s' % (a, b)
            sigma = sc['sigma_override'].get(key, (sc['diam'][a] + sc['diam'][b]) / 2.0)
            U = systems.make_potential(sc['pot'][key])
            if U.sigma is None:               # an explicitly given sigma wins, else the arithmetic mean
                U.sigma = sigma
            om = systems.make_omega(sc['omega'][key], k)
            site = sc['rho'][a] if a == b else sc['rho'][a] + sc['rho'][b]
            out['pairs'][(a, b)] = {'sigma': sigma, 'u': U.calculate(r) / sc['kT'], 'closure': sc['clo'][key][0],
                                    'omega': np.array(om.calculate(k)) * site}
        return out, sc

    def diff_state(self, want, w):
        out = []
        s = w['sys']
        # the System itself follows the edits
        for item, v in want['cfg'].items():
            kind, _, which = item.partition('.')
            if kind == 'rho':
                got = s.density[which]
                exp = VERS[item][v] if v else None
                if got != exp:
                    out.append(('SystemState', {'item': item, 'expected': exp, 'observed': got}))
            if kind == 'sig' and want['cfg']['d.A'] and want['cfg']['d.B']:
                exp = (VERS['d.A'][want['cfg']['d.A']] + VERS['d.B'][want['cfg']['d.B']]) / 2.0 + VERS[item][v]
                for got in (s.diameter['A', 'B'], s.diameter['B', 'A']):
                    if got is None or abs(got - exp) > 1e-12:
                        out.append(('SystemState', {'item': item, 'expected': exp, 'observed': got}))
        if len(want['prisms']) != len(w['prisms']):
            out.append(('PrismCount', {'expected': len(want['prisms']), 'observed': len(w['prisms'])}))
            return out
        for n, (wp, p, res) in enumerate(zip(want['prisms'], w['prisms'], w['results'])):
            exp, sc = self.expected_wiring(wp['snap'])
            ps = p.sys
            if ps.domain.length != sc['length'] or abs(ps.domain.dr - sc['dr']) > 1e-15 or \
               len(ps.domain.r) != sc['length'] or np.max(np.abs(ps.domain.r - exp['r'])) > 1e-12:
                out.append(('SnapshotFrozen.domain', {'prism': n + 1, 'expected': [sc['length'], sc['dr']],
                                                      'observed': [ps.domain.length, float(ps.domain.dr), len(ps.domain.r)]}))
                continue
            if ps.kT != sc['kT']:
                out.append(('SnapshotFrozen.kT', {'prism': n + 1, 'expected': sc['kT'], 'observed': ps.kT}))
            for (a, b), e in exp['pairs'].items():
                for (x, y) in ((a, b), (b, a)):
                    c = ps.closure[x, y]
                    if type(c).__name__ not in {'PY': ('PercusYevick', 'PY'), 'HNC': ('HyperNettedChain', 'HNC')}[e['closure']]:
                        out.append(('SnapshotFrozen.closure', {'prism': n + 1, 'pair': [x, y], 'observed': type(c).__name__}))
                    elif c.sigma is None or abs(c.sigma - e['sigma']) > 1e-12:
                        out.append(('Wiring.sigma', {'prism': n + 1, 'pair': [x, y], 'expected': e['sigma'], 'observed': c.sigma}))
                    elif c.potential is None or np.shape(c.potential) != e['u'].shape or \
                            np.max(np.abs(np.asarray(c.potential) - e['u'])) > 1e-9 * max(1.0, float(np.max(np.abs(e['u'])))):
                        out.append(('Wiring.potential', {'prism': n + 1, 'pair': [x, y],
                                                         'what': 'closure.potential != U(r; sigma=(d_a+d_b)/2)/kT of the snapshot'}))
                    got = np.asarray(p.omega[x, y], dtype=float)
                    if p.omega.space.name == 'Fourier' and (got.shape != e['omega'].shape or
                                                            np.max(np.abs(got - e['omega'])) > 1e-9 * max(1.0, float(np.max(np.abs(e['omega']))))):
                        out.append(('Wiring.omega', {'prism': n + 1, 'pair': [x, y], 'what': 'PRISM.omega != omega(k) * site density of the snapshot'}))
                if len(out) > 3:
                    return out[:3]
            # solved objects: the result is that of a freshly built System with the snapshot's parameters
            if wp['solved'] and self.do_solves and res is not None:
                if not res.success:
                    self.unconverged += 1
                    continue
                # the fresh System is solved from the object's own solution (more than one root may exist; which one a solve
                # from the zero guess reaches depends on rounding): SweepEqualsFresh = that solution is (next to) a root of a
                # freshly built System with these parameters
                root = hash(np.round(np.asarray(res.x) / (1.0 + float(np.max(np.abs(res.x)))), 5).tobytes())
                key = repr(sorted(wp['snap'].items())) + str(root)
                if key not in self.ref:
                    with warnings.catch_warnings():
                        warnings.simplefilter('ignore')
                        fs, fp, fres = systems.solve(sc, maxiter=400, guess=np.array(res.x, dtype=float))
                    self.ref[key] = np.array(fp.totalCorr.data) if fres.success else None
                ref = self.ref[key]
                if ref is None:
                    self.unconverged += 1
                    continue
                if p.totalCorr.space.name != 'Real':
                    continue      # post-processed by the user; C06 covers that
                got = np.asarray(p.totalCorr.data)
                err = float(np.max(np.abs(got - ref))) / max(1.0, float(np.max(np.abs(ref))))
                # the object was solved to scipy's default tolerance (residual ~ 6e-6), the reference from its solution: the two differ
                # by what that tolerance allows, not by rounding
                if got.shape != ref.shape or err > 1e-4:
                    out.append(('SweepEqualsFresh', {'prism': n + 1, 'rel_err': err,
                                                     'what': 'solved h(r) differs from that of a freshly built System with these parameters'}))
        return out[:3]


class _LazyDiblock(object):
    """user-written omega object (the documented extension point: any object with calculate(k))"""

    def __init__(self, spec):
        self.spec = spec

    def calculate(self, k):
        return systems.diblock_omega(k, self.spec[1], self.spec[2], self.spec[3], self.spec[4])


def run(ctx):
    thorough = ctx.tier == 'thorough'
    ctx.notes['rule'] = ('(1) every System with at most two items unset x createPRISM/solve x step-by-step completion; (2) every '
                         'edit/create/solve/PRISM.solve history of a complete System to the step bound (<= 2 PRISM objects alive); '
                         'distinct = distinct (abstract state, action) pairs executed on real objects')
    ctx.trusted += ['TLC 1.8.0', 'harness/systems.py factories (fresh potentials / omegas for the wiring oracle)',
                    'deep fingerprint of the System object graph']
    ctx.assumptions += ['two site types, two versions per item (listed in harness/props/c16_snapshot.py:VERS)',
                        'solved results compared at 1e-4 relative (accuracy of two solves converged to the default tolerance); unconverged solves skipped and counted']
    # (1) completeness machine
    res = run_tlc('MC_SystemLife', cfg_text('MC_Items', 2, 1, 4, 'FillNext'), ctx.tmp, seed=ctx.seed)
    require_clean(res, 'SystemLife completeness')
    ctx.add_tlc('completeness: <= 2 items missing', res, exhaustive=True)
    g = Graph(res.records['EDGE'], res.records['INIT'])
    ad = SysAdapter(ctx.seed, do_solves=False)
    w = Walker(ctx, g, ad, 'replay.completeness')
    ne = w.cover_edges(stutter=True)
    ctx.traces += ne
    ctx.stage('replay.completeness', initial_states=len(g.inits), graph_edges=g.n_edges, edges_replayed=ne, real_calls=w.steps)
    # the same machine once more with potentials that all carry an EXPLICIT sigma: a missing diameter is still a missing item
    # (the closures take their contact distance from the diameters whatever the potentials say)
    saved = {k: dict(VERS[k]) for k in ('pot.AA', 'pot.AB', 'pot.BB')}
    try:
        for k in saved:
            VERS[k][1] = ['HardSphere', {'sigma': 1.0}]
        w = Walker(ctx, g, SysAdapter(ctx.seed, do_solves=False), 'replay.completeness.explicit_sigma')
        ne2 = w.cover_edges(stutter=True)
        ctx.traces += ne2
        ctx.stage('replay.completeness.explicit_sigma', edges_replayed=ne2, real_calls=w.steps)
    finally:
        for k, v in saved.items():
            VERS[k].clear()
            VERS[k].update(v)
    ctx.sample({'edge': res.records['EDGE'][5]})
    # (2) sweep machine
    editable, steps = ('SweepThorough', 4) if thorough else ('SweepQuick', 3)
    res = run_tlc('MC_SystemLife', cfg_text(editable, 0, 2, steps, 'Next'), ctx.tmp, seed=ctx.seed)
    require_clean(res, 'SystemLife sweeps')
    ctx.add_tlc('sweeps: %s, %d steps' % (editable, steps), res, exhaustive=True)
    g = Graph(res.records['EDGE'], res.records['INIT'])
    ad = SysAdapter(ctx.seed, do_solves=True)
    w = Walker(ctx, g, ad, 'replay.sweeps')
    npaths, complete = w.all_paths(steps, budget=None if thorough else 6000)
    ctx.stage('replay.sweeps', graph_states=len(g.state), graph_edges=g.n_edges, paths=npaths, complete=complete,
              real_calls=w.steps, solves=ad.solves, reference_solves=len(ad.ref), unconverged_skipped=ad.unconverged)
    if ad.unconverged:
        ctx.skip('solves that did not converge', ad.unconverged)
    if len(ad.ref) < 3:     # vacuity guard: SweepEqualsFresh needs converged solves to speak about
        raise MachineryError('only %d converged reference solves: SweepEqualsFresh was not exercised' % len(ad.ref))
    ctx.sample({'edge': res.records['EDGE'][len(res.records['EDGE']) // 2]})
    # (3) the composite life cycle: histories crossing edits, creation, the three ways of solving, calculate.* and user transforms
    from harness import lifecycle
    lifecycle.run_stage(ctx, thorough, only=None)
    # direction B: System events of the repository's tests and of sweep-shaped drivers
    ev1, i1 = tracecheck.record_pytest(ctx, ['System_test.py', 'PRISM_test.py'], 'suite_system')
    ev2, i2 = tracecheck.record_driver(ctx, 'prism_driver', [ctx.seed, 'sweep', 4 if thorough else 1], 'driver_system')
    tracecheck.system_traces(ctx, [('suite', ev1, i1), ('driver', ev2, i2)])
