"""C09 - closures equal their definitions and respect core, limit and purity rules.

spec/ClosurePotential.tla (closure-object machine): the four relations c(gamma, u) and the
hard-core branch as terms; TLC decides the branch at every grid point from flag and sigma and
checks VanishAtZero, WeakCoupling (symbolic derivatives at the origin), CoreBranchValue,
UnflaggedOnOverlap, ClosureBranches, CalculatePure on the definitions.  Replay: the exported
graph (set potential / set sigma / calculate with a gamma family) is walked on the real closure
classes and their aliases; every Calculate compares all points with the TLC-selected term
evaluated on the very arrays handed to the closure, and checks purity, elementwise evaluation
and alias identity.  The weak-coupling clause is also decided on the code by a ratio test."""
import copy
import warnings

import numpy as np

from harness.refmath import same_values
from harness.core import run_tlc, require_clean, MachineryError
from harness.graph import Graph, Walker, Adapter
from harness import termeval
from harness.props.c10_potentials import Concretisation, grid, half_units

CANON = {'PercusYevick': 'PY', 'PY': 'PY', 'HyperNettedChain': 'HNC', 'HNC': 'HNC', 'MeanSphericalApproximation': 'MSA', 'MSA': 'MSA',
         'MartynovSarkisov': 'MS', 'MS': 'MS'}
LONG = {'PY': 'PercusYevick', 'HNC': 'HyperNettedChain', 'MSA': 'MeanSphericalApproximation', 'MS': 'MartynovSarkisov'}


def cfg(L, edge=True):
    return '\n'.join([
        'CONSTANTS L = %d' % L, 'Sigmas <- MC_Sigmas', 'Cuts <- MC_Cuts', 'Diams <- MC_Diams',
        'INIT MCCInit', 'NEXT CNext', 'VIEW CView', 'CHECK_DEADLOCK FALSE',
        'INVARIANTS VanishAtZero WeakCoupling CoreBranchValue UnflaggedOnOverlap HardCoreValue ClosureBranches',
        'PROPERTIES CalculatePure',
        'ACTION_CONSTRAINT %s' % ('CEdge' if edge else 'NoEdge'), ''])


def make_closure(kind, flag):
    import pyPRISM.closure as C
    # the flag as users pass it: a bool, a numpy bool, or 0/1
    style = len(kind) % 3
    arg = np.bool_(flag) if style == 1 else (int(flag) if style == 2 else bool(flag))
    with warnings.catch_warnings():
        warnings.simplefilter('ignore')
        return getattr(C, kind)(apply_hard_core=arg)


def potential_family(name, r, c, rng):
    """what a user (or PRISM.__init__) puts into closure.potential: u(r)/kT on the grid"""
    if name == 'zero':
        return np.zeros(len(r))
    if name == 'hs':            # overlap value inside 2.5 grid spacings, finite attractive tail outside
        u = -0.4 * np.exp(-(np.asarray(r, dtype=float) - 2.5 * c.dr))
        u[np.asarray(r) <= 2.5 * c.dr] = 1e6
        return u
    if name == 'finite':        # smooth, both signs, O(1)
        x = np.asarray(r, dtype=float) / c.dr
        return 1.7 * np.cos(0.9 * x) / (1.0 + 0.3 * x) + 0.2 * rng.standard_normal(len(r))
    raise MachineryError(name)


def gamma_family(name, n, rng):
    if name == 'zero':
        return np.zeros(n)
    if name == 'small':
        return 0.3 * rng.uniform(-1, 1, n)
    if name == 'large':
        g = rng.uniform(-50, 50, n)
        g[::3] *= 6.0           # up to +-300
        g[1::4] = rng.uniform(-2000, 2000, len(g[1::4]))      # beyond the range of exp (gamma(0) ~ 1000 occurs for large particles)
        return g
    if name == 'ramp':
        return np.linspace(-1.5, 4.0, n)
    raise MachineryError(name)


SHIPPED_MS = lambda g, u: np.exp(np.sqrt(g - u + 0.5) - 1.0) - 1.0 - g      # noqa: E731  (signature of the recorded defect only)


def judge(kind, flag, r, sigma, gamma, u, got, label, info):
    """(clause, detail) list: code vs the TLC-selected term at every grid point"""
    canon = CANON[kind]
    got = np.asarray(got, dtype=float)
    if got.shape != gamma.shape:
        return [('ClosDefinition.%s.shape' % canon, {'observed': list(got.shape)})]
    env = {'gamma': gamma, 'u': u}
    with np.errstate(all='ignore'):
        core = np.asarray(termeval.ev(info['core'], env), dtype=float)
        rels = {'main': np.asarray(termeval.ev(info['rel'][canon], env), dtype=float) * np.ones(len(gamma))}
        if canon == 'MS':
            rels['alt'] = np.asarray(termeval.ev(info['rel']['MSalt'], env), dtype=float)
    out = []
    is_core = np.array([b == 'core' for b in label['branch']])
    # a grid point that coincides with sigma up to floating-point noise of the grid: which side of the mask it falls on
    # is fixed by C10/C03, not by this statement ("inside" / "outside" the core) - not judged here
    judged = np.ones(len(r), dtype=bool)
    if sigma is not None:
        rr = np.asarray(r, dtype=float)
        spacing = float(np.min(np.abs(np.diff(rr)))) if len(rr) > 1 else float(abs(rr[0]))
        # "noise" is relative to the grid: a millionth of the spacing (an absolute 1e-6 would swallow every point of a grid given
        # in metres)
        judged = ~((np.abs(rr - sigma) < 1e-6 * spacing) & (rr != sigma))
    # ---- hard-core branch: bitwise -1 - gamma
    bad_core = judged & is_core & ~(got == core)
    if bad_core.any():
        i = int(np.argmax(bad_core))
        det = {'kind': kind, 'point': i + 1, 'r': float(r[i]), 'sigma': sigma, 'gamma': float(gamma[i]), 'expected': float(core[i]),
               'observed': float(got[i])}
        if sigma is not None and float(r[i]) == sigma:
            out.append(('ContactIsCore.exact', det))
        else:
            out.append(('HardCoreBranch.%s' % canon, det))
    # ---- relation outside the core / everywhere when unflagged
    rel_pts = judged & ~is_core
    first = None
    for name, want in rels.items():
        with np.errstate(all='ignore'):
            fin = rel_pts & np.isfinite(want)      # where the definition is not real (sqrt of a negative number) nothing is demanded
            scale = np.abs(want) + 1.0 + np.abs(gamma) + np.abs(want + 1.0 + gamma)
            dev = fin & ~(np.abs(got - want) <= 1e-11 * scale)
        if not dev.any():
            first = None
            break
        if first is None:
            i = int(np.argmax(dev))
            first = (i, float(want[i]))
    if first is not None:
        i, want = first
        det = {'kind': kind, 'flag': flag, 'point': i + 1, 'r': float(r[i]), 'gamma': float(gamma[i]), 'u': float(u[i]), 'expected': want,
               'observed': float(got[i])}
        sig = 'other'
        if canon == 'MS':
            with np.errstate(all='ignore'):
                sh = SHIPPED_MS(gamma, u)
            m = rel_pts & np.isfinite(sh)
            if m.any() and np.allclose(got[m], sh[m], rtol=1e-12, atol=1e-12):
                sig = 'exp(sqrt(gamma-u+0.5)-1)-1-gamma'
        det['signature'] = sig
        if np.isfinite(core[i]) and float(got[i]) == float(core[i]):
            # the code applied the hard-core branch where the relation applies
            det['observed_branch'] = 'core'
            out.append(('ClosureBranches.%s' % canon, det))
        else:
            out.append(('ClosDefinition.%s' % canon, det))
    return out


class ClosAdapter(Adapter):
    module = 'ClosurePotential.closure'

    def __init__(self, L, conc, info, seed):
        self.L, self.c, self.info = L, conc, info
        self.r = grid(L, conc)
        self.seed = seed

    def rng(self, *key):
        import zlib
        return np.random.default_rng([self.seed, zlib.crc32(repr(key).encode())])

    def new(self, st):
        c = st['clo']
        return {'clo': make_closure(c['kind'], c['flag']), 'kind': c['kind'], 'flag': c['flag'], 'fam': 'unset'}

    def clone(self, w):
        # the grid array is ONE object for the life of a Domain (PRISM.cost hands the same array to every call): references
        # a closure may keep to it survive the copy
        return {'clo': copy.deepcopy(w['clo'], {id(self.r): self.r}), 'kind': w['kind'], 'flag': w['flag'], 'fam': w['fam']}

    def step(self, w, l):
        act, C = l['act'], w['clo']
        if act == 'SetPotential':
            u = potential_family(l['fam'], self.r, self.c, self.rng('pot', l['fam']))
            how = l.get('how', 'new')
            if how == 'new' or C.potential is None or not isinstance(C.potential, np.ndarray) or np.shape(C.potential) != np.shape(u):
                C.potential = np.array(u, dtype=float)
            elif self.warm(C) and how == 'refill':
                buf = C.potential            # the array the user assigned before: refilled and assigned again
                buf[:] = u
                C.potential = buf
            else:
                C.potential[:] = u           # modified in place, nothing assigned
            w['fam'] = l['fam']
            return {}
        if act == 'SetSigma':
            self.warm(C)        # evaluated with its present contact distance before that changes
            sg = self.c.dist(l['sigma2'])
            # the contact distance as a float, a numpy scalar or (when integral) an int
            style = l['sigma2'] % 3
            C.sigma = np.float64(sg) if style == 1 else (int(sg) if (style == 2 and float(sg) == int(sg)) else sg)
            return {}
        if act == 'Calculate':
            return self.calculate(w, l)
        raise MachineryError(act)

    def warm(self, C):
        """the closure has been evaluated with its present potential before the user changes the array's values (a Calculate
        step of the specification, which leaves the abstract state unchanged: SetPotential; Calculate; SetPotential(refill))"""
        try:
            with np.errstate(all='ignore'):
                C.calculate(self.r, np.zeros(len(self.r)))
        except Exception:          # noqa - e.g. sigma not set yet: then nothing was evaluated
            pass
        return True

    def calculate(self, w, l):
        C = w['clo']
        r = self.r                      # the same array object on every call, as in PRISM.cost
        gamma = gamma_family(l['gamma'], len(r), self.rng('gamma', l['gamma'], w['kind']))
        if CANON[w['kind']] == 'MS' and C.potential is not None:
            # keep the Martynov-Sarkisov square root real where the potential is finite
            u = np.asarray(C.potential, dtype=float)
            lo = np.where(u < 1e5, u - 0.45, -np.inf)
            gamma = np.maximum(gamma, lo)
        if self.rng('layout', l['gamma'], w['kind']).random() < 0.35:
            gamma = np.repeat(gamma, 2)[::2]          # the same numbers as a non-contiguous view (every second entry of a longer array)
        keep = (r.tobytes(), gamma.tobytes(), None if C.potential is None else np.asarray(C.potential).tobytes())
        try:
            with np.errstate(all='ignore'):
                v = C.calculate(r, gamma)
        except AssertionError:
            return {'raises': 'AssertionError'}
        except Exception as ex:          # noqa
            return {'raises': 'some', '_class': type(ex).__name__}
        v1 = np.array(v, dtype=float)
        u = np.array(C.potential, dtype=float)
        sigma = getattr(C, 'sigma', None)
        obs = {'raises': 'none', '_kind': w['kind']}
        obs['_pure'] = keep == (r.tobytes(), gamma.tobytes(), np.asarray(C.potential).tobytes())
        bad = []
        if l['raises'] == 'none':
            bad += judge(w['kind'], w['flag'], r, sigma, gamma, u, v1, l, self.info)
            with np.errstate(all='ignore'):
                # elementwise: the same points in another order, and one at a time
                perm = self.rng('perm').permutation(len(r))
                C2 = copy.deepcopy(C)
                C2.potential = u[perm]
                v2 = np.array(C2.calculate(r[perm], gamma[perm]), dtype=float)
                if not same_values(v1[perm], v2):
                    bad.append(('Elementwise.permutation', {'kind': w['kind']}))
                C3 = copy.deepcopy(C)
                v3 = []
                for i in range(len(r)):
                    C3.potential = u[i:i + 1]
                    v3.append(np.asarray(C3.calculate(r[i:i + 1], gamma[i:i + 1]), dtype=float)[0])
                if not same_values(v1, np.array(v3)):
                    bad.append(('Elementwise.single_point', {'kind': w['kind']}))
                # repeat evaluation gives the same values and does not disturb the first result
                v4 = np.array(C.calculate(r, gamma), dtype=float)
                if not np.array_equal(v1, v4, equal_nan=True):
                    bad.append(('Repeatable', {'kind': w['kind']}))
                # the alias / long name of the same closure behaves identically
                other = LONG[CANON[w['kind']]] if w['kind'] != LONG[CANON[w['kind']]] else CANON[w['kind']]
                A = make_closure(other, w['flag'])
                A.potential = np.array(u)
                if sigma is not None:
                    A.sigma = sigma
                v5 = np.array(A.calculate(r, gamma), dtype=float)
                if not same_values(v1, v5):
                    bad.append(('AliasSame', {'kind': w['kind'], 'alias': other}))
        obs['_bad'] = sorted(bad, key=lambda x: x[0].startswith('ContactIsCore.float_noise') or x[1].get('signature', 'other') != 'other')[:3]
        return obs

    def project(self, w):
        C = w['clo']
        return {'clo': {'kind': w['kind'], 'flag': bool(C.apply_hard_core), 'sigma2': half_units(getattr(C, 'sigma', None), self.c),
                        'pot': w['fam'] if C.potential is not None else 'unset'}}

    def diff_state(self, want, got):
        out = []
        for k in ('kind', 'flag', 'sigma2', 'pot'):
            if want['clo'][k] != got['clo'][k]:
                out.append(('State.' + k, {'expected': want['clo'][k], 'observed': got['clo'][k]}))
        return out

    def diff_obs(self, l, obs):
        if l['act'] != 'Calculate':
            return []
        if l['raises'] == 'some':
            # a flagged closure without sigma cannot evaluate: any exception is accepted, silence is not
            if obs['raises'] == 'none':
                return [('FlagNeedsSigma', {'expected': 'an exception', 'observed': 'returned'})]
            return []
        if obs['raises'] != l['raises']:
            return [('CalculateRaises', {'expected': l['raises'], 'observed': obs['raises'], 'class': obs.get('_class')})]
        if l['raises'] != 'none':
            return []
        out = []
        if not obs['_pure']:
            out.append(('Pure.inputs_modified', {'kind': obs['_kind']}))
        return out + obs.get('_bad', [])


def weak_coupling(ctx, info):
    """the code's c(eps*u, eps*gamma) + eps*u is second order in eps: halving eps quarters it (ratio test), and
    c(0, 0) = 0; decided for both flag values outside the core"""
    rng = np.random.default_rng(ctx.seed)
    n = 64
    r = np.linspace(0.1, 6.4, n)
    u0 = rng.uniform(-1, 1, n)
    g0 = rng.uniform(-1, 1, n)
    for kind in sorted(CANON):
        for flag in (False, True):
            C = make_closure(kind, flag)
            C.sigma = 0.05       # every grid point is outside the core
            res = []
            for eps in (0.0, 1e-2, 5e-3, 2.5e-3):
                C.potential = eps * u0
                with np.errstate(all='ignore'):
                    c = np.asarray(C.calculate(r, eps * g0), dtype=float)
                res.append(float(np.max(np.abs(c + eps * u0))))
            ctx.count(('weak', kind, flag))
            canon = CANON[kind]
            sig = 'other'
            if canon == 'MS' and abs(res[0] - abs(np.exp(np.sqrt(0.5) - 1.0) - 1.0)) < 1e-12:
                sig = 'exp(sqrt(gamma-u+0.5)-1)-1-gamma'
            if res[0] > 1e-14:
                ctx.violation('VanishAtZero.%s' % canon, {'family': 'weak_coupling', 'action': 'Calculate', 'kind': kind, 'flag': flag,
                                                          'observed': res[0], 'expected': 0.0, 'signature': sig,
                                                          'detail': 'c(gamma=0, u=0) is not zero: correlations cannot decay to zero'})
                continue
            # second order: r(eps/2) / r(eps) -> 1/4; first-order remainder would give 1/2
            ratios = [res[i + 1] / res[i] if res[i] > 0 else 0.0 for i in (1, 2)]
            if any(q > 0.35 for q in ratios) and res[1] > 1e-12:
                ctx.violation('WeakCoupling.%s' % canon, {'family': 'weak_coupling', 'action': 'Calculate', 'kind': kind, 'flag': flag,
                                                          'residuals': res, 'ratios': ratios, 'signature': sig,
                                                          'detail': 'c + u is not second order in (u, gamma)'})
    ctx.stage('weak_coupling', kinds=len(CANON), flags=2, eps=[1e-2, 5e-3, 2.5e-3])


def concretisations(thorough):
    cs = [Concretisation('dyadic', '0.5', 1.0, 1.0, 1e6, 'literal'),
          Concretisation('tenth', '0.1', 1.0, 1.0, 1e6, 'literal'),
          # lengths in metres (sigma ~ 1e-9) and a spacing with seven decimals: "for all sigma relative to the grid"
          Concretisation('metres', '1.25e-10', 1.0, 1.0, 1e6, 'computed'),
          Concretisation('seven.decimals', '0.1000003', 1.0, 1.0, 1e6, 'computed')]
    if thorough:
        cs += [Concretisation('0.05.computed', '0.05', 1.0, 1.0, 1e6, 'computed'),
               Concretisation('0.075', '0.075', 1.0, 1.0, 1e6, 'literal'),
               Concretisation('quarter', '0.25', 1.0, 1.0, 1e6, 'computed')]
    return cs


def run(ctx):
    thorough = ctx.tier == 'thorough'
    L = 16 if thorough else 8
    ctx.notes['rule'] = ('closure-object states (class or alias x flag x sigma x potential family) x public calls exported by TLC; distinct = '
                         '(state, call) pairs executed on the real classes per grid concretisation; every Calculate compares all grid points '
                         'with the TLC-selected term on seeded gamma / potential arrays')
    ctx.trusted += ['TLC 1.8.0', 'harness/termeval.py', 'harness/graph.py', 'numpy exp/sqrt']
    ctx.assumptions += ['Martynov-Sarkisov: either published form accepted (MS, MSalt of the spec); gamma kept where the square root is real',
                        'relation compared at 1e-11 of (|c| + (1+|gamma|)(1+exp(gamma-u)))); hard-core branch bitwise',
                        'a flagged closure whose sigma was never set must raise (class of the exception not judged)']
    res = run_tlc('MC_ClosurePotential', cfg(L), ctx.tmp, seed=ctx.seed)
    require_clean(res, 'ClosurePotential closure machine')
    ctx.add_tlc('closure machine L=%d' % L, res, exhaustive=True)
    info = res.records['INFO'][0]
    edges = res.records['EDGE']
    g = Graph(edges, res.records.get('INIT'))
    ctx.sample({'edge': [e for e in edges if e['l']['act'] == 'Calculate' and e['l']['raises'] == 'none' and e['from']['clo']['flag']][5]})
    ctx.sample({'relations': info['rel']})
    for c in concretisations(thorough):
        ad = ClosAdapter(L, c, info, ctx.seed)
        w = Walker(ctx, g, ad, 'replay.closure.%s' % c.name)
        ne = w.cover_edges(stutter=True)
        npaths, complete = w.all_paths(4 if thorough else 3, budget=600000 if thorough else 25000)
        nr = w.random_walks(2000 if thorough else 40, 10, ctx.seed)
        ctx.stage('replay.closure', concretisation=c.describe(), graph_states=len(g.state), graph_edges=g.n_edges,
                  edges_replayed=ne, paths=npaths, paths_complete=complete, random_walks=nr, real_calls=w.steps)
    weak_coupling(ctx, info)
    # direction B: every evaluation of the cost function during the solves of the repository's tests and of the drivers - each pair's
    # closure output against the relation of the specification (Trace_HardCore.tla, clause ClosureRelation)
    import json
    import os
    from harness import tracecheck
    tpath = os.path.join(ctx.tmp, 'closure_terms.json')
    with open(tpath, 'w') as fh:
        json.dump({'rel': info['rel'], 'drel': info.get('drel', {}), 'core': info['core']}, fh)
    os.environ['VERIF_TRACE_COST'] = '1'
    os.environ['VERIF_CLOSURE_TERMS'] = tpath
    try:
        ev1, i1 = tracecheck.record_pytest(ctx, ['PRISM_test.py', 'CalcPRISM_test.py'], 'suite_cost')
        ev2, i2 = tracecheck.record_driver(ctx, 'prism_driver', [ctx.seed, 'calc', 2 if thorough else 1], 'driver_cost')
    finally:
        del os.environ['VERIF_TRACE_COST']
    tracecheck.cost_traces(ctx, [('suite', ev1, i1), ('driver', ev2, i2)])
