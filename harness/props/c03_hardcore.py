"""C03 - hard-core exclusion: c = -1 - gamma on every core point at every cost evaluation, g = fun/r there
in solved objects.

spec/HardCore.tla: TLC enumerates every valid two-component configuration (closure x flag x potential per
pair, diameters, kT), decides which pairs have a hard core (HardCorePair) and how many grid points their
core has, and checks on the definitions of ClosureDefs that the composed term potential -> closure
reduces to -1 - gamma (CoreValueHoldsAll, with the float64 underflow assumption explicit).  Every
Stride-th configuration is exported and built as a real System; the real PRISM.cost is called with
seeded trial vectors and closure.value is compared BITWISE with -1 - GammaIn on the core points of every
hard-core pair.  A subset is solved; there |g| <= |fun|/r + 1e-12 on the core points."""
import warnings

import numpy as np

import os

from harness.core import run_tlc, require_clean, MachineryError
from harness import tracecheck

LEN = 64
NA, NB = 'sB', 'a'           # type names: not in alphabetical order, different lengths
PAIRS = {'AA': (NA, NA), 'AB': (NA, NB), 'BB': (NB, NB)}


def mc_module(diam_pairs):
    return '\n'.join([
        '---------------------------- MODULE MC_HardCoreRun ----------------------------',
        'EXTENDS HardCore, Json',
        'MC_DiamPairs == {%s}' % ', '.join('<<%d, %d>>' % p for p in diam_pairs),
        'XSt == [cfg |-> xcfg]',
        'MCXInit == XInit /\\ (Sampled => PrintT(<<"INIT", ToJson(XSt)>>))',
        'XView == xcfg',
        'XEdge == Sampled => PrintT(<<"EDGE", ToJson([from |-> XSt, to |-> XSt, l |-> last\'])>>)',
        '=============================================================================', ''])


def cfg(stride, kts, psigs):
    return '\n'.join([
        'CONSTANTS L = %d' % LEN, 'Stride = %d' % stride, 'KTs = {%s}' % ', '.join(str(k) for k in kts),
        'PotSigmas = {%s}' % ', '.join('"%s"' % x for x in psigs), 'DiamPairs <- MC_DiamPairs', 'INIT MCXInit', 'NEXT XNext', 'VIEW XView', 'CHECK_DEADLOCK FALSE',
        'INVARIANTS CoreValueHolds CoreExtent', 'ACTION_CONSTRAINT XEdge', ''])


def build(c, dr, rng, label):
    """the real System of a configuration; everything the spec leaves open (densities, omegas, potential
    parameters) is drawn from the seeded generator - the statement quantifies over all of it"""
    import pyPRISM
    s = pyPRISM.System([NA, NB], kT=float(c['kT']))
    s.domain = pyPRISM.Domain(length=LEN, dr=dr)
    half = dr / 2.0
    if rng.random() < 0.5:
        # a size sweep on a re-used System: both diameters first get a common value, then their own
        s.diameter[[NA, NB]] = 0.25 if rng.random() < 0.5 else 2.0
        order = [NB, NA] if rng.random() < 0.5 else [NA, NB]
    else:
        order = [NA, NB]
    for t in order:
        s.diameter[t] = c['dia'][0 if t == NA else 1] * half
    s.density[NA] = float(rng.uniform(0.02, 0.5))
    s.density[NB] = float(rng.uniform(0.02, 0.5))
    for name, (a, b) in PAIRS.items():
        p = c['pairs'][name]
        k = p['pot']
        if k == 'HardSphere':
            U = pyPRISM.potential.HardSphere()
        elif k == 'Exponential':
            U = pyPRISM.potential.Exponential(epsilon=float(rng.uniform(-1, 1)), alpha=float(rng.uniform(0.2, 1.5)))
        elif k == 'HardCoreLennardJones':
            U = pyPRISM.potential.HardCoreLennardJones(epsilon=float(rng.uniform(0.05, 1.0)))
        else:
            U = pyPRISM.potential.LennardJones(epsilon=float(rng.uniform(0.05, 0.6)))
        if c.get('psig', 'default') != 'default':
            U.sigma = label['potsigma2'][name] * half          # explicitly given contact distance of the potential
        s.potential[a, b] = U
        with warnings.catch_warnings():
            warnings.simplefilter('ignore')
            clo = {'PY': pyPRISM.closure.PercusYevick, 'HNC': pyPRISM.closure.HyperNettedChain,
                   'MSA': pyPRISM.closure.MeanSphericalApproximation,
                   'MS': pyPRISM.closure.MartynovSarkisov}[p['clos']](apply_hard_core=p['flag'])
            if rng.random() < 0.3:
                # the closure object has a past: the user tried it stand-alone on this grid (a small contact distance, no
                # potential, as the unit tests do) before handing it to the System
                clo.sigma = float(s.domain.r[0])
                clo.potential = np.zeros(LEN)
                with np.errstate(all='ignore'):
                    clo.calculate(s.domain.r, np.zeros(LEN))
            s.closure[a, b] = clo
    shape = int(rng.integers(0, 4))
    if shape == 0:
        s.omega[NA, NA] = pyPRISM.omega.SingleSite()
        s.omega[NB, NB] = pyPRISM.omega.SingleSite()
        s.omega[NA, NB] = pyPRISM.omega.NoIntra()
    elif shape == 1:
        s.omega[NA, NA] = pyPRISM.omega.Gaussian(sigma=1.0, length=int(rng.integers(2, 40)))
        s.omega[NB, NB] = pyPRISM.omega.SingleSite()
        s.omega[NA, NB] = pyPRISM.omega.NoIntra()
    elif shape == 2:
        s.omega[NA, NA] = pyPRISM.omega.FreelyJointedChain(length=int(rng.integers(2, 20)), l=1.0)
        s.omega[NB, NB] = pyPRISM.omega.GaussianRing(sigma=1.0, length=int(rng.integers(3, 30)))
        s.omega[NA, NB] = pyPRISM.omega.NoIntra()
    else:                       # a copolymer: intra-molecular cross correlation present
        k = s.domain.k
        E = np.exp(-k * k / 6.0)
        s.omega[NA, NA] = pyPRISM.omega.FromArray(1.0 + E)
        s.omega[NB, NB] = pyPRISM.omega.FromArray(1.0 + E)
        s.omega[NA, NB] = pyPRISM.omega.FromArray(0.5 * (E + E * E))
    return s


def trial(fam, P, rng):
    n = LEN * 4
    r = np.repeat(P.sys.domain.r, 4)
    if fam == 'zero':
        return np.zeros(n)
    if fam == 'small':
        return r * rng.uniform(-0.5, 0.5, n)
    if fam == 'huge':
        return r * rng.uniform(-2000, 2000, n)
    g = rng.uniform(-40, 40, n)
    g[::5] *= 10
    return r * g


def check_cost(ctx, c, label, dr, rng, fails):
    s = build(c, dr, rng, label)
    with warnings.catch_warnings():
        warnings.simplefilter('ignore')
        if rng.random() < 0.35:
            # a System that was used before: it held smaller diameters when a first PRISM object was created from it
            final = {t: s.diameter[t] for t in (NA, NB)}
            for t in (NA, NB):
                s.diameter[t] = max(final[t] - 2.0 * dr, dr)
            s.createPRISM()
            for t in (NB, NA):
                s.diameter[t] = final[t]
        P = s.createPRISM()
        x = trial(label['gamma'], P, rng)
        with np.errstate(all='ignore'):
            try:
                P.cost(x)
            except np.linalg.LinAlgError:
                # an absurd trial vector can make I - Omega C singular or non-finite AFTER all closures have been
                # evaluated; the closure outputs and GammaIn of this evaluation are in place and are what is judged
                ctx.skip('PRISM algebra singular on an extreme trial vector (closure outputs still judged)')
    r = np.asarray(P.sys.domain.r, dtype=float)
    for name, (a, b) in PAIRS.items():
        if not label['hard'][name]:
            continue
        n = label['ncore'][name]
        sigma = label['sigma2'][name] * dr / 2.0
        clo = P.sys.closure[a, b]
        # GammaIn and closure.value are what THIS implementation of cost() leaves behind; the cost argument is r * gamma by
        # definition, and a closure's output is what calculate() returns: both are recomputed through the public API when the
        # attributes are gone
        if getattr(P, 'GammaIn', None) is not None:
            gin = np.asarray(P.GammaIn[a, b], dtype=float)
        else:
            gin = (x.reshape(LEN, 2, 2) / r.reshape(-1, 1, 1))[:, [NA, NB].index(a), [NA, NB].index(b)]
        if getattr(clo, 'value', None) is not None and np.shape(clo.value) == gin.shape:
            val = np.asarray(clo.value, dtype=float)
        else:
            with np.errstate(all='ignore'):
                val = np.asarray(clo.calculate(P.sys.domain.r, gin), dtype=float)
        idx = np.arange(n)
        # a grid point that coincides with sigma only up to grid noise is not "r <= sigma" bitwise: C10's business
        idx = idx[~((np.abs(r[idx] - sigma) < 1e-6) & (r[idx] != sigma))]
        want = -1.0 - gin[idx]
        ctx.count(('cost', dr, label['gamma'], name, c['pairs'][name]['clos'], c['pairs'][name]['flag'], c['pairs'][name]['pot']))
        bad = ~(val[idx] == want)
        if bad.any():
            i = int(idx[np.argmax(bad)])
            key = ('HardCoreValue', c['pairs'][name]['clos'], c['pairs'][name]['flag'], c['pairs'][name]['pot'])
            if key in fails:
                continue
            fails.add(key)
            ctx.violation('HardCoreValue', {'family': 'replay.cost', 'action': 'Cost', 'pair': name, 'pair_cfg': c['pairs'][name],
                                            'config': c, 'dr': dr, 'gamma_family': label['gamma'], 'point': i + 1, 'r': float(r[i]),
                                            'sigma': sigma, 'gamma': float(gin[i]), 'expected': float(-1.0 - gin[i]), 'observed': float(val[i]),
                                            'detail': 'closure output differs from -1 - gamma inside the core'})
    return P


def check_solved(ctx, c, label, dr, rng, fails):
    s = build(c, dr, rng, label)
    with warnings.catch_warnings():
        warnings.simplefilter('ignore')
        P = s.createPRISM()
        try:
            with np.errstate(all='ignore'):
                res = P.solve(method='krylov', options={'disp': False, 'maxiter': 120})
        except Exception:
            ctx.skip('solve raised (not judged)')
            return
    if not res.success or not np.all(np.isfinite(res.fun)):
        ctx.skip('solve did not converge (not judged)')
        return
    import pyPRISM
    r = np.asarray(P.sys.domain.r, dtype=float)
    fun = np.asarray(res.fun, dtype=float).reshape(-1, 2, 2)
    T = {NA: 0, NB: 1}
    g_first = pyPRISM.calculate.pair_correlation(P)
    # ... and the same statement once more after the user has looked at other quantities of the solved object (what is stored
    # inside the cores stays what the solve left there; transforms there and back add rounding, not structure)
    with warnings.catch_warnings():
        warnings.simplefilter('ignore')
        with np.errstate(all='ignore'):
            try:
                pyPRISM.calculate.second_virial(P)
                pyPRISM.calculate.structure_factor(P)
                pyPRISM.calculate.solvation_potential(P)
                g_later = pyPRISM.calculate.pair_correlation(P)
            except Exception as ex:      # noqa
                g_later = None
                ctx.violation('SolvedCoreEmpty', {'family': 'replay.solved', 'action': 'Calc', 'config': c, 'dr': dr,
                                                  'detail': 'post-processing of a solved object raised: %s: %s' % (type(ex).__name__, str(ex)[:120])})
    for g, slack, when in ((g_first, 1e-12, 'after solve'), (g_later, 1e-9, 'after second_virial, structure_factor, solvation_potential')):
      if g is None:
          continue
      for name, (a, b) in PAIRS.items():
        if not label['hard'][name]:
            continue
        n = label['ncore'][name]
        sigma = label['sigma2'][name] * dr / 2.0
        idx = np.arange(n)
        idx = idx[~((np.abs(r[idx] - sigma) < 1e-6) & (r[idx] != sigma))]
        gv = np.asarray(g[a, b], dtype=float)[idx]
        bound = np.abs(fun[idx, T[a], T[b]]) / r[idx] + slack
        ctx.count(('solved', dr, name, c['pairs'][name]['clos'], c['pairs'][name]['flag'], c['pairs'][name]['pot'], when))
        bad = ~(np.abs(gv) <= bound)
        if bad.any():
            i = int(idx[np.argmax(bad)])
            key = ('SolvedCoreEmpty', c['pairs'][name]['clos'], c['pairs'][name]['flag'], when)
            if key in fails:
                continue
            fails.add(key)
            ctx.violation('SolvedCoreEmpty', {'family': 'replay.solved', 'action': 'Solve', 'pair': name, 'pair_cfg': c['pairs'][name], 'config': c,
                                              'dr': dr, 'point': i + 1, 'r': float(r[i]), 'observed': float(np.asarray(g[a, b])[i]),
                                              'bound': float(np.abs(fun[i, T[a], T[b]]) / r[i] + slack), 'when': when,
                                              'detail': '|g(r)| inside the core exceeds the solver residual divided by r (%s)' % when})
    return True


def run(ctx):
    thorough = ctx.tier == 'thorough'
    ctx.notes['rule'] = ('TLC enumerates all valid pair configurations (26^3 closure/flag/potential assignments x diameters x kT with >= 1 '
                         'hard-core pair); every Stride-th is built as a real System and evaluated through PRISM.cost for the three trial '
                         'families; distinct = (grid, family, pair, closure, flag, potential) combinations compared')
    ctx.trusted += ['TLC 1.8.0', 'numpy']
    ctx.assumptions += ['overlap value / kT >= 746 + gamma so that exp underflows to 0.0 (default high_value 1e6, kT <= 2, |gamma| <= 2000)',
                        'MSA/MS without the flag on a divergent potential are excluded (documented not to work)',
                        'grid points within 1e-6 of sigma that are not bitwise <= sigma are not judged here (C10)',
                        'solved objects: unconverged solves skipped and counted']
    # half grid spacings: equal sizes; an off-grid cross contact; a small sphere (an explicit potential sigma below the first grid point) next to a ten times larger one;
    # larger one whose own contact distance lies beyond the end of the grid
    diam = [(16, 16), (8, 10), (4, 140)] if not thorough else [(16, 16), (16, 24), (8, 10), (12, 20), (4, 40), (4, 140)]
    kts = [1] if not thorough else [1, 2]
    stride = 127 if not thorough else 47
    psigs = ['default', 'smaller'] if not thorough else ['default', 'smaller', 'larger']
    res = run_tlc('MC_HardCoreRun', cfg(stride, kts, psigs), ctx.tmp, extra_modules={'MC_HardCoreRun': mc_module(diam)}, workers=8, seed=ctx.seed, coverage=False)
    require_clean(res, 'HardCore')
    ctx.add_tlc('HardCore configurations', res, exhaustive=True)
    edges = res.records.get('EDGE', [])
    if not edges:
        raise MachineryError('no configuration exported')
    ctx.sample({'edge': edges[0]})
    fails = set()
    rng = np.random.default_rng(ctx.seed)
    n = 0
    for dr in (0.125, 0.1):
        for e in edges:
            check_cost(ctx, e['from']['cfg'], e['l'], dr, rng, fails)
            n += 1
    ctx.traces += n
    ctx.exhaustive['binding: every Stride-th configuration, seeded trial vectors'] = False
    ctx.stage('replay.cost', configurations_exported=len(edges) // 3, cost_evaluations=n, grids=[0.125, 0.1])
    # solved objects: configurations whose every pair is a hard-core PY/HNC/flagged pair converge most reliably
    m = 0
    tried = 0
    want = 120 if thorough else 14
    for e in edges:
        if e['l']['gamma'] != 'zero':
            continue
        c = e['from']['cfg']
        if not all(e['l']['hard'].values()):
            continue
        if max(c['dia']) > 24:          # spheres that do not fit the grid are cost-level cases only: no liquid-state solution to converge to
            continue
        tried += 1
        if check_solved(ctx, c, e['l'], 0.125, rng, fails):
            m += 1
        if m >= want or tried >= 3 * want:
            break
    ctx.traces += m
    ctx.stage('replay.solved', solved_and_judged=m, tried=tried)
    if m < 3:       # vacuity guard: the solved-object clause must have been exercised
        raise MachineryError('only %d of %d solves converged: the solved-object clause was not exercised' % (m, tried))
    # direction B: every evaluation of the cost function during the solves of the repository's tests and of the drivers
    os.environ['VERIF_TRACE_COST'] = '1'
    try:
        ev1, i1 = tracecheck.record_pytest(ctx, ['PRISM_test.py', 'CalcPRISM_test.py'], 'suite_cost')
        ev2, i2 = tracecheck.record_driver(ctx, 'prism_driver', [ctx.seed, 'calc', 2 if thorough else 1], 'driver_cost')
    finally:
        del os.environ['VERIF_TRACE_COST']
    tracecheck.cost_traces(ctx, [('suite', ev1, i1), ('driver', ev2, i2)])
