"""C14 - PairTable / ValueTable: symmetric keyed maps with isolated values.

spec/Tables.tla (TLC: RefinesMap, Symmetric, Isolation, AliasCoherent, SetUnsetOnlyFillsUnset,
ApplyOutLeavesOriginal) -> EDGE export -> replay of every edge / every path to depth D /
random walks on the real pyPRISM.core.PairTable and ValueTable; plus validation of traces
recorded from the real classes against spec/Trace_Tables.tla.
"""
import copy
import random

from harness.core import run_tlc, require_clean, MachineryError
from harness.graph import Graph, Walker, Adapter
from harness import tracecheck

NAMES = ['dd', 'd', 'polyB', 'A1']    # multi-character names (a key string must not be iterated), one a substring of another, not sorted


def cfg(n, sym, nxt, edge=True, vals='MC_Vals'):
    return '\n'.join([
        'CONSTANTS N = %d' % n, 'Sym = %s' % ('TRUE' if sym else 'FALSE'), 'Vals <- %s' % vals,
        'INIT MCInit', 'NEXT %s' % nxt, 'VIEW View',
        'INVARIANTS TypeOK AliasCoherent RefinesMap Symmetric Isolation ExportSymmetric',
        'PROPERTIES SetUnsetOnlyFillsUnset ApplyOutLeavesOriginal',
        'ACTION_CONSTRAINT %s' % ('Edge' if edge else 'NoEdge'), ''])


def F(l):
    return [3 - l[0], l[1]]


class TablesAdapter(Adapter):
    module = 'Tables'

    def __init__(self, n, sym, seed):
        self.n = n
        self.sym = sym
        self.types = NAMES[:n]
        self.rng = random.Random(seed)

    def new(self, state):
        from pyPRISM.core.PairTable import PairTable
        from pyPRISM.core.ValueTable import ValueTable
        # 'group': ONE list object the user keeps around, edits and passes as a key again and again
        return {'pt': PairTable(list(self.types), 'pt', symmetric=self.sym),
                'vt': ValueTable(list(self.types), 'vt'), 'caller': None, 'group': []}

    def _keys(self, idx, w=None):
        names = [self.types[i - 1] for i in idx]
        if w is not None and self.rng.random() < 0.35:
            g = w['group']
            del g[:]
            g.extend(names)
            return g
        if len(names) == 1 and self.rng.random() < 0.5:
            import numpy as np
            return names[0] if self.rng.random() < 0.8 else np.str_(names[0])       # bare string key (str or numpy string)
        r = self.rng.random()
        if r < 0.3:
            return tuple(names)
        if r < 0.4:
            import numpy as np
            return np.array(names)               # a column of type names out of an array
        # (lazy iterables - generators, map objects - are NOT used as keys: the statement speaks of single keys and lists of keys, and
        # the shipped PairTable consumes a generator given as the second key during the first pass of its outer loop)
        return names

    def step(self, w, l):
        act = l['act']
        pt, vt = w['pt'], w['vt']
        T = self.types
        if act == 'PTSet':
            payload = [l['v'], 0]
            w['caller'] = payload
            k1 = self._keys(l['k1'], w)
            k2 = k1 if (k1 is w['group'] and list(l['k1']) == list(l['k2'])) else self._keys(l['k2'])
            pt[k1, k2] = payload
            return {}
        if act == 'PTSetUnset':
            payload = [l['v'], 0]
            w['caller'] = payload
            pt.setUnset(payload)
            return {}
        if act == 'PTApplyIn':
            r = pt.apply(F) if self.rng.random() < 0.5 else pt.apply(F, inplace=True)
            return {'returns_self': r is pt}
        if act == 'PTApplyOut':
            new = pt.apply(F, inplace=False)
            newvals = []
            shares = False
            for a in T:
                for b in T:
                    v = new[a, b]
                    newvals.append([] if v is None else list(v))
                    for c in T:
                        for d in T:
                            if v is not None and v is pt[c, d]:
                                shares = True
            return {'newvals': newvals, 'shares': shares, 'is_new_object': new is not pt}
        if act == 'PTExport':
            import numpy as np
            from pyPRISM.core.Space import Space
            space = self.rng.choice([None, Space.Real, Space.Fourier, Space.NonSpatial])
            try:
                ma = pt.exportToMatrixArray() if space is None else pt.exportToMatrixArray(space=space)
            except ValueError:
                return {'raises': True}
            data = [[float(x) for x in ma[a, b]] for a in T for b in T]
            obs = {'raises': False, 'data': data, 'types_ok': list(ma.types) == list(T),
                   'space_ok': ma.space == (Space.Real if space is None else space),
                   'shape_ok': ma.data.shape == (2, len(T), len(T)) and ma.length == 2 and ma.rank == len(T)}
            # the export is independent of the table: writing into it changes no stored value
            before = [None if pt[a, b] is None else list(pt[a, b]) for a in T for b in T]
            ma.data[...] = -7.0
            obs['shares'] = before != [None if pt[a, b] is None else list(pt[a, b]) for a in T for b in T]
            return obs
        if act == 'MutateStored':
            pt[T[l['i'] - 1], T[l['j'] - 1]][1] = 1
            return {}
        if act == 'MutateCaller':
            w['caller'][1] = 1
            return {}
        if act == 'PTCheck':
            try:
                pt.check()
                return {'raises': False}
            except ValueError:
                return {'raises': True}
        if act == 'PTIter':
            kw = {'full': {'full': True}, 'diagonal': {}, 'offdiag': {'diagonal': False}}[l['mode']]
            out = []
            names_ok = True
            for (i, j), (t1, t2), v in pt.iterpairs(**kw):
                out.append([i + 1, j + 1, [] if v is None else list(v)])
                names_ok = names_ok and t1 == T[i] and t2 == T[j]
            # System.iterpairs(full, diagonal) promises the same visiting order over the System's type list
            import pyPRISM
            sysout = [[i + 1, j + 1] for (i, j), (t1, t2) in pyPRISM.System(list(T)).iterpairs(**kw)]
            sysnames = all(t1 == T[i] and t2 == T[j] for (i, j), (t1, t2) in pyPRISM.System(list(T)).iterpairs(**kw))
            return {'out': out, 'names_ok': names_ok and sysnames, 'sys_out': sysout}
        if act == 'VTSet':
            vt[self._keys(l['k'], w)] = l['v']
            return {}
        if act == 'VTSetUnset':
            vt.setUnset(l['v'])
            return {}
        if act == 'VTCheck':
            try:
                vt.check()
                return {'raises': False}
            except ValueError:
                return {'raises': True}
        if act == 'VTIter':
            out = []
            names_ok = True
            for i, t, v in vt:
                out.append([i + 1, 0 if v is None else v])
                names_ok = names_ok and t == T[i]
            return {'out': out, 'names_ok': names_ok}
        raise MachineryError('unknown action %s' % act)

    def project(self, w):
        T = self.types
        objs = [w['pt'][a, b] for a in T for b in T] + [w['caller']]
        ids, seen = [], []
        for o in objs:
            if o is None:
                ids.append(0)
                continue
            for n, s in enumerate(seen):
                if s is o:
                    ids.append(n + 1)
                    break
            else:
                seen.append(o)
                ids.append(len(seen))
        return {'id': ids, 'val': [[] if o is None else list(o) for o in objs],
                'vt': [0 if w['vt'][t] is None else w['vt'][t] for t in T]}

    def diff_state(self, want, got):
        out = []
        n = self.n
        # contents: judged exactly (last write wins, same from both orders, no leak from
        # the caller's object or from another pair)
        tw, tg = want['val'][:n * n], got['val'][:n * n]
        if tw != tg:
            out.append(('Contents', {'expected': tw, 'observed': tg}))
        if want['vt'] != got['vt']:
            out.append(('ValueTableContents', {'expected': want['vt'], 'observed': got['vt']}))
        # isolation: objects may be shared only between (a,b) and (b,a) of a symmetric table
        gi = got['id']
        for s in range(n * n):
            for t in range(s + 1, n * n + 1):
                if gi[s] == 0 or gi[s] != gi[t]:
                    continue
                if t == n * n:
                    out.append(('Isolation.caller', {'slot': s + 1, 'observed': gi}))
                else:
                    a, b = divmod(s, n)
                    c, d = divmod(t, n)
                    same_pair = self.sym and (a, b) == (d, c)
                    if not same_pair:
                        out.append(('Isolation.pairs', {'slots': [s + 1, t + 1], 'observed': gi}))
        return out[:2]

    def diff_obs(self, label, obs):
        out = []
        if label['act'] == 'PTExport' and not label['raises'] and obs.get('raises') is False:
            if [list(map(float, v)) for v in label['data']] != obs['data']:
                out.append(('Export.data', {'expected': label['data'], 'observed': obs['data']}))
            for k in ('types_ok', 'space_ok', 'shape_ok'):
                if not obs[k]:
                    out.append(('Export.' + k[:-3], {}))
        for k in ('raises', 'out', 'newvals', 'shares'):
            if k in label and obs.get(k) != label[k]:
                out.append(('Obs.' + k, {'expected': label[k], 'observed': obs.get(k)}))
        if 'sys_out' in obs and obs['sys_out'] != [x[:2] for x in label['out']]:
            out.append(('Obs.system_iterpairs', {'expected': [x[:2] for x in label['out']], 'observed': obs['sys_out']}))
        if obs.get('names_ok') is False:
            out.append(('Obs.type_names', {'observed': 'iteration yielded wrong type names'}))
        if obs.get('returns_self') is False:
            out.append(('Obs.apply_inplace_returns_self', {}))
        if obs.get('is_new_object') is False:
            out.append(('Obs.apply_out_of_place_returns_new_table', {}))
        return out


def model(ctx, name, n, sym, nxt, edge, workers=1, vals='MC_Vals'):
    res = run_tlc('MC_Tables', cfg(n, sym, nxt, edge, vals), ctx.tmp, workers=workers, seed=ctx.seed)
    require_clean(res, name)
    ctx.add_tlc(name, res, exhaustive=True)
    return res


def replay_graph(ctx, res, n, sym, family, depth, nrandom, rdepth, budget=None):
    g = Graph(res.records.get('EDGE', []), res.records.get('INIT'))
    if not g.inits or g.n_edges == 0:
        raise MachineryError('no graph exported for ' + family)
    w = Walker(ctx, g, TablesAdapter(n, sym, ctx.seed), family)
    ne = w.cover_edges(stutter=True)
    npaths, complete = w.all_paths(depth, budget)
    nr = w.random_walks(nrandom, rdepth, ctx.seed)
    from harness.graph import blind_walks
    nb = blind_walks(w, max(nrandom // 2, 50), rdepth, ctx.seed)          # nothing read before the end of the walk
    ctx.stage(family, graph_states=len(g.state), graph_edges=g.n_edges, edges_replayed=ne,
              all_paths_depth=depth, paths=npaths, paths_complete=complete, random_walks=nr,
              random_depth=rdepth, real_calls=w.steps, duplicate_failures_suppressed=w.dups)
    return w


def falsy_values(ctx):
    """"holds exactly the last value assigned", "setUnset fills only entries never assigned", "check() raises exactly when some
    entry is unset" - for values whose truth value is False (0.0, False, '', an empty list, a one-element zero array): they are SET.
    The specification's payloads are opaque; this stage binds that opacity for the values a truthiness test would mistake."""
    import numpy as np
    from pyPRISM.core.PairTable import PairTable
    from pyPRISM.core.ValueTable import ValueTable
    falsy = [0.0, False, '', [], np.array([0.0]), 0]
    T = NAMES[:3]
    n = 0
    for i, val in enumerate(falsy):
        for sym in (True, False):
            pt = PairTable(list(T), 'pt', symmetric=sym)
            vt = ValueTable(list(T), 'vt')
            pt[T, T] = 7.0
            vt[T] = 7.0
            a, b = T[i % 3], T[(i + 1) % 3]
            pt[a, b] = val
            vt[a] = val
            n += 1
            problems = []
            for name, table, get in (('PairTable', pt, lambda: pt[a, b]), ('ValueTable', vt, lambda: vt[a])):
                try:
                    table.check()
                except ValueError:
                    problems.append('%s.check() raises although every entry was assigned' % name)
                table.setUnset('filled')
                got = get()
                same = (type(got) is type(val)) and (np.array_equal(got, val) if isinstance(val, np.ndarray) else got == val)
                if not same:
                    problems.append('%s entry assigned %r reads %r after setUnset' % (name, val, got))
            for what in problems:
                ctx.violation('FalsyValueIsSet', {'family': 'falsy_values', 'action': 'PTSet', 'value': repr(val), 'symmetric': sym, 'detail': what})
    ctx.stage('falsy_values', cases=n)


def run(ctx):
    thorough = ctx.tier == 'thorough'
    falsy_values(ctx)
    ctx.notes['rule'] = ('TLC enumerates every reachable abstract table state (alias partition x contents) and '
                         'every public call enabled in it; each exported edge is one case; distinct = distinct '
                         '(state, call) pairs executed on the real classes; a case is non-trivial because every '
                         'edge carries a call with arguments and an expected post-state/observation')
    ctx.trusted += ['TLC 1.8.0', 'harness/graph.py walker', 'projection in harness/props/c14_tables.py '
                    '(object identity via `is`, contents via list())']
    ctx.assumptions += ['payloads are two-element Python lists; apply() is exercised with a function returning a new list',
                        'ValueTable payloads are immutable integers (the statement demands isolation of PairTable only)',
                        'the judged statement is about symmetric tables; symmetric=False is modelled and replayed for '
                        'assignment/read/iterate/mutate only in the thorough tier']
    # PairTable, 2 types, symmetric: complete graph, every edge, all paths to depth D
    r = model(ctx, 'PairTable N=2 sym', 2, True, 'NextPT', True)
    replay_graph(ctx, r, 2, True, 'replay.PairTable.N2', 3 if thorough else 2,
           20000 if thorough else 1500, 14, budget=None if thorough else 400000)
    edges = r.records.get('EDGE', [])
    ctx.sample({'edge': edges[len(edges) // 2]})
    ctx.sample({'edge': edges[-1]})
    # PairTable, 2 types, symmetric=False: (a,b) and (b,a) are different pairs (edges and random walks; the path enumeration
    # is left to the symmetric table)
    r = model(ctx, 'PairTable N=2 non-symmetric', 2, False, 'NextPT', True, vals='MC_Vals' if thorough else 'MC_Vals1')
    replay_graph(ctx, r, 2, False, 'replay.PairTable.N2.nonsym', 1, 6000 if thorough else 400, 10, budget=200000)
    # ValueTable, 3 types
    r = model(ctx, 'ValueTable N=3', 3, True, 'NextVT', True)
    replay_graph(ctx, r, 3, True, 'replay.ValueTable.N3', 3 if thorough else 2, 3000 if thorough else 500, 12)
    # PairTable, 3 types: TLC checks the invariants exhaustively on every tier (no export: 10^7 edges);
    if thorough:
        r = model(ctx, 'PairTable N=3 sym (invariants only)', 3, True, 'NextPT', False, workers=16)
    # direction B: traces recorded from the real classes (repository tests + drivers)
    ev1, i1 = tracecheck.record_pytest(ctx, ['PairTable_test.py', 'ValueTable_test.py', 'System_test.py',
                                             'Density_test.py', 'Diameter_test.py'], 'suite_tables')
    ev2, i2 = tracecheck.record_driver(ctx, 'system_driver', [ctx.seed, 300 if thorough else 40], 'driver_tables')
    tracecheck.tables_traces(ctx, [('suite', ev1, i1), ('driver', ev2, i2)])
