"""C01 - converged solutions satisfy the PRISM equation and every pair's closure.

(A) spec/PrismCore.tla: one evaluation of PRISM.cost as the sequence of the code's statements in exact
    rational arithmetic; TLC checks PrismEq, SkIdentity, HSymmetric, GammaIsHMinusC, PipelineIsCost on every
    instance (rank 1-3).  The instances are packed as the wavenumbers of real PRISM objects (omega through
    omega.FromArray, C-hat through the public closure.potential of an MSA closure, whose output is -u
    whatever gamma is) and the real cost() must reproduce TLC's Omega, OC, H and gamma_out.
(B) spec/PrismSolve.tla: what a solve that reports success leaves behind.  Configurations x methods x
    guesses enumerated by TLC, sampled, solved on the real code; the stored arrays are judged by the
    independent evaluator (harness/prism_eval.py) against the user's inputs; prism.solve events of the
    repository's tests and of the drivers are validated against Trace_PrismSolve.tla."""
import json
import math
import os
import warnings

import numpy as np

from harness.core import run_tlc, require_clean, MachineryError
from harness.graph import Graph, key_of
from harness.refmath import dense_transforms
from harness import prism_eval, tracecheck, systems

FWD, BWD = 4 * math.pi, 1.0 / (2 * math.pi ** 2)
DR = 0.5


def q(x):
    return x[0] / x[1]


def mat(m):
    return np.array([[q(c) for c in row] for row in m], dtype=float)


def core_cfg(R, seeds, dev='none', edge=True, perm=True):
    return '\n'.join(['CONSTANTS R = %d' % R, 'Seeds = {%s}' % ', '.join(str(s) for s in seeds), 'Deviation = "%s"' % dev,
                      'INIT MCInit', 'NEXT Next', 'VIEW View', 'CHECK_DEADLOCK FALSE',
                      'INVARIANTS PrismEq SkIdentity HSymmetric GammaIsHMinusC PipelineIsCost' + (' PermEquivariant' if perm else ''),
                      'ACTION_CONSTRAINT %s' % ('Edge' if edge else 'NoEdge'), ''])


def closure_terms(ctx):
    """the closure relations and their slopes, exported by TLC from ClosureDefs.tla; cached as JSON for the observer"""
    cfg = '\n'.join(['CONSTANTS L = 2', 'Sigmas <- MC_Sigmas', 'Cuts <- MC_Cuts', 'Diams <- MC_Diams', 'INIT MCCInit', 'NEXT CNext',
                     'VIEW CView', 'CHECK_DEADLOCK FALSE', 'INVARIANTS VanishAtZero WeakCoupling', 'ACTION_CONSTRAINT NoEdge', ''])
    res = run_tlc('MC_ClosurePotential', cfg, ctx.tmp, seed=ctx.seed, coverage=False)
    require_clean(res, 'ClosureDefs terms')
    info = res.records['INFO'][0]
    path = os.path.join(ctx.tmp, 'closure_terms.json')
    with open(path, 'w') as fh:
        json.dump({'rel': info['rel'], 'drel': info['drel'], 'core': info['core']}, fh)
    prism_eval.set_terms({'rel': info['rel'], 'drel': info['drel'], 'core': info['core']})
    return path


# --------------------------------------------------------------------------------------
# (A) algebra stage
# --------------------------------------------------------------------------------------
def pack(ctx, R, insts, labels, fails):
    """instances with the same densities become the wavenumbers of ONE real PRISM object"""
    import pyPRISM
    groups = {}
    for seed, inst in insts.items():
        if seed in labels:
            groups.setdefault(json.dumps(inst['rho']), []).append(seed)
    n_cmp = 0
    for rho_key, seeds in sorted(groups.items()):
        seeds = sorted(seeds)
        while len(seeds) < 4:               # a Domain needs a few points; repeat instances
            seeds = seeds + seeds
        n = len(seeds)
        T = ['t%d' % i for i in range(R)]
        rho = [q(x) for x in insts[seeds[0]]['rho']]
        s = pyPRISM.System(T, kT=1.0)
        s.domain = pyPRISM.Domain(length=n, dr=DR)
        dk = math.pi / (DR * n)
        MF, MR = dense_transforms(n, DR, dk, FWD, BWD)
        W = np.array([mat(insts[sd]['W']) for sd in seeds])
        C = np.array([mat(insts[sd]['C']) for sd in seeds])
        for i, t in enumerate(T):
            s.density[t] = rho[i]
            s.diameter[t] = 1.0
        for i, a in enumerate(T):
            for j, b in enumerate(T):
                if j < i:
                    continue
                s.potential[a, b] = pyPRISM.potential.HardSphere()
                with warnings.catch_warnings():
                    warnings.simplefilter('ignore')
                    s.closure[a, b] = pyPRISM.closure.MeanSphericalApproximation()
                s.omega[a, b] = pyPRISM.omega.FromArray(W[:, i, j])
        with warnings.catch_warnings():
            warnings.simplefilter('ignore')
            P = s.createPRISM()
        Cr = np.einsum('xn,nab->xab', MR, C)
        for i, a in enumerate(T):
            for j, b in enumerate(T):
                if j >= i:
                    P.sys.closure[a, b].potential = -Cr[:, i, j]        # MSA: c = -u, for every gamma
        x = np.zeros(R * R * n)
        with np.errstate(all='ignore'):
            y = P.cost(x)
        expH = np.array([mat(labels[sd]['H']) for sd in seeds])
        expOm = np.array([mat(labels[sd]['Omega']) for sd in seeds])
        expOC = np.array([mat(labels[sd]['OC']) for sd in seeds])
        expG = np.array([mat(labels[sd]['G']) for sd in seeds])
        expY = np.einsum('xn,nab->xab', MR, expG) * np.asarray(P.sys.domain.r).reshape(-1, 1, 1)

        def cmp(name, got, want, tol=1e-9):
            got = np.asarray(got, dtype=float)
            if got.shape != want.shape:
                return (name, {'what': 'shape', 'observed': list(got.shape)})
            # scale: the instance's own magnitude, floored by a fraction of the group's (an exact 0 is met to rounding only)
            err = np.max(np.abs(got - want), axis=(1, 2)) / (np.max(np.abs(want), axis=(1, 2)) + 1e-3 * (1.0 + float(np.max(np.abs(want)))))
            i = int(np.argmax(err))
            if not np.all(np.isfinite(got)) or err[i] > tol:
                return (name, {'instance_seed': seeds[i], 'rel_err': float(err[i]), 'expected': want[i].tolist(), 'observed': got[i].tolist()})
            return None
        # OC is an intermediate of this implementation of cost(): judged where it exists (H and y decide the pipeline anyway)
        checks = [cmp('ScaleOmega.site_density', P.omega.data, expOm),
                  cmp('DotOC', P.OC.data, expOC) if getattr(P, 'OC', None) is not None else None,
                  cmp('PrismAlgebra.H', P.totalCorr.data, expH), cmp('GammaOut.y', y.reshape(n, R, R), expY, 1e-8)]
        n_cmp += 4 * n
        for sd in set(seeds):
            ctx.count(('algebra', R, sd))
        for c in checks:
            if c is None:
                continue
            clause, det = c
            if (R, clause) in fails:
                continue
            fails.add((R, clause))
            rec = {'family': 'replay.PrismCore', 'action': 'Cost', 'rank': R, 'rho': rho, 'detail': clause,
                   'instance': insts[det.get('instance_seed', seeds[0])]}
            rec.update(det)
            ctx.violation(clause, rec)
    return n_cmp


def algebra(ctx, thorough):
    fails = set()
    plans = [(1, range(1, 41)), (2, range(1, 121)), (3, range(1, 13))] if not thorough else [(1, range(1, 121)), (2, range(1, 1201)), (3, range(1, 241))]
    for R, seeds in plans:
        # the permutation statement is checked on every instance of rank 1-2 and on the C04 check's instances of rank 3
        res = run_tlc('MC_PrismCore', core_cfg(R, list(seeds), perm=(R < 3)), ctx.tmp, seed=ctx.seed, workers=8 if R == 3 else 2, coverage=(R < 3))
        require_clean(res, 'PrismCore R=%d' % R)
        ctx.add_tlc('PrismCore R=%d' % R, res, exhaustive=True)
        insts = {i['inst']['seed']: i['inst'] for i in res.records['INIT']}
        labels = {e['from']['seed']: e['l'] for e in res.records['EDGE']}
        n = pack(ctx, R, insts, labels, fails)
        ctx.traces += len(labels)
        ctx.stage('replay.PrismCore', rank=R, instances=len(labels), comparisons=n)
        if R == 2:
            ctx.sample({'instance': insts[sorted(labels)[0]], 'expected_H': labels[sorted(labels)[0]]['H']})
    # binding self-test of the specification side: a named deviation must violate the statements (not vacuous)
    res = run_tlc('MC_PrismCore', core_cfg(2, [1, 2, 3], dev='pair_density', edge=False), ctx.tmp, seed=ctx.seed, coverage=False)
    if res.violated not in ('PrismEq', 'SkIdentity', 'PipelineIsCost'):
        raise MachineryError('deviation pair_density does not violate the PRISM statements: %s' % (res.violated or res.error))
    ctx.stage('spec.deviation', deviation='pair_density', violated=res.violated)


# --------------------------------------------------------------------------------------
# (B) solved objects
# --------------------------------------------------------------------------------------
TYPES = ['mB', 'A', 'c3']          # not in alphabetical order, names of different lengths
CLO = {'PY': lambda a, b: ['PY'], 'HNC': lambda a, b: ['HNC'], 'PY/HNC': lambda a, b: ['PY'] if a == b else ['HNC'],
       'MSAhc': lambda a, b: ['MSA', True], 'PYhc/HNC': lambda a, b: ['PY', True] if a == b else ['HNC']}
POT = {'HS': lambda a, b: ['HardSphere'], 'HS+Exp': lambda a, b: ['HardSphere'] if a == b else ['Exponential', 0.3, 0.5],
       'HCLJ': lambda a, b: ['HardCoreLennardJones', 0.2 if a == b else 0.3], 'HS+ExpRep': lambda a, b: ['HardSphere'] if a == b else ['Exponential', -0.4, 0.75]}


def omega_pattern(name, a, b, T):
    if name == 'atomic':
        return ['SingleSite'] if a == b else ['NoIntra']
    if name == 'gaussian':
        return (['Gaussian', 1.0, 6 + 5 * T.index(a)] if a == b else ['NoIntra'])
    if name == 'fjc+ring':
        if a != b:
            return ['NoIntra']
        return [['FJC', 8, 1.0], ['Ring', 1.0, 12], ['SingleSite']][T.index(a)]
    if name == 'copolymer':     # first two types form a diblock; further types are solvent
        if len(T) >= 2 and a in T[:2] and b in T[:2]:
            return ['Diblock', ('AA' if a == b == T[0] else ('BB' if a == b else 'AB')), 1.0, 3, 3]
        return ['SingleSite'] if a == b else ['NoIntra']
    raise MachineryError(name)


def concrete(cfg, rng):
    R = cfg['rank']
    T = TYPES[:R]
    if cfg['om'] == 'copolymer' and R == 1:
        return None
    rho = {t: float(rng.uniform(0.04, 0.22)) for t in T}
    if cfg['om'] == 'copolymer':
        rho[T[1]] = rho[T[0]]
    # grids: dyadic and non-dyadic spacings, lengths that are not powers of two
    length, dr = [(256, 0.125), (256, 0.125), (300, 0.1), (512, 0.0625), (200, 0.15)][int(rng.integers(0, 5))]
    d = {'types': T, 'kT': float(rng.choice([1.0, 1.5, 0.8])), 'dr': dr, 'length': length, 'rho': rho,
         'diam': {t: [1.0, 1.0, 1.5][i] for i, t in enumerate(T)}, 'pot': {}, 'clo': {}, 'omega': {},
         'assign': str(rng.choice(['group', 'pair', 'setunset', 'edit'])), 'diam_idiom': str(rng.choice(['direct', 'sweep'])),
         'num_style': str(rng.choice(['float', 'np', 'int'])), 'reuse': bool(rng.random() < 0.4),
         'domain_idiom': str(rng.choice(['direct', 'direct', 'setter', 'dk', 'length']))}
    for a, b in systems.pairs(T):
        key = '%s-%s' % (a, b)
        d['pot'][key] = POT[cfg['pot']](a, b)
        d['clo'][key] = CLO[cfg['clo']](a, b)
        d['omega'][key] = omega_pattern(cfg['om'], a, b, T)
    return d


def solved(ctx, thorough, terms_path):
    ranks = [1, 2, 3]
    methods = ['krylov', 'df-sane', 'hybr', 'broyden1'] if thorough else ['krylov', 'hybr']
    cfg = '\n'.join(['CONSTANTS Ranks = {%s}' % ', '.join(str(r) for r in ranks),
                     'ClosurePatterns = {%s}' % ', '.join('"%s"' % x for x in sorted(CLO)),
                     'PotentialPatterns = {%s}' % ', '.join('"%s"' % x for x in sorted(POT)),
                     'OmegaPatterns = {"atomic", "gaussian", "fjc+ring", "copolymer"}',
                     'Methods = {%s}' % ', '.join('"%s"' % m for m in methods),
                     'INIT MCInit', 'NEXT Next', 'VIEW View', 'CHECK_DEADLOCK FALSE', 'INVARIANTS SuccessImpliesEquations',
                     'ACTION_CONSTRAINT Edge', ''])
    res = run_tlc('MC_PrismSolve', cfg, ctx.tmp, seed=ctx.seed)
    require_clean(res, 'PrismSolve')
    ctx.add_tlc('PrismSolve', res, exhaustive=True)
    g = Graph(res.records['EDGE'], res.records.get('INIT'))
    rng = np.random.default_rng(ctx.seed)
    inits = sorted(g.inits)
    order = rng.permutation(len(inits))
    want = 700 if thorough else 24
    done = judged = 0
    fails = set()
    for idx in order:
        if judged >= want or done >= 3 * want:
            break
        k0 = inits[idx]
        st = g.state[k0]
        c = concrete(st['cfg'], rng)
        if c is None:
            continue
        m = str(rng.choice(methods))
        if m == 'hybr' and st['cfg']['rank'] >= (3 if thorough else 2):
            m = 'krylov'                        # dense finite-difference Jacobian of 2304 unknowns: run time only
        done += 1
        s = systems.build(c)
        with warnings.catch_warnings():
            warnings.simplefilter('ignore')
            P = s.createPRISM()
            if rng.random() < 0.35:
                # the user prepares the next run on the same System before solving this object (a sweep): the object was created
                # for the inputs of `c` and is judged against them
                s.domain.dr = float(s.domain.dr) * 0.8
                for t in c['types']:
                    s.density[t] = float(s.density[t]) * 1.07
            seq = [('zero', None)]
            if rng.random() < 0.5:
                seq.append(('own', None) if rng.random() < 0.5 else ('perturbed', None))
            k = k0
            for guess_name, _ in seq:
                guess = None
                if guess_name in ('own', 'perturbed'):
                    if not getattr(P, 'minimize_result', None) or not P.minimize_result.success:
                        break
                    guess = np.array(P.minimize_result.x)
                    if guess_name == 'perturbed':
                        guess = guess * (1.0 + 0.02 * rng.standard_normal(guess.shape))
                try:
                    with np.errstate(all='ignore'):
                        r = P.solve(guess=guess, method=m, options={'disp': False, 'maxiter': 150} if m != 'hybr' else {})
                    ok = bool(r.success) and bool(np.all(np.isfinite(r.fun)))
                except Exception:
                    ctx.skip('solve raised (not judged)')
                    break
                ev = prism_eval.evaluate(P, spec=c)          # the oracle works from the description the System was built from
                if not ev['judged']:
                    raise MachineryError('evaluator could not judge a solved object: %s' % ev.get('why'))
                eqc = 'within' if ev['eq'] <= 1.0 else 'beyond'
                clc = 'within' if ev['clos'] <= 1.0 else 'beyond'
                ctx.count(('solve', key_of(st['cfg']), m, guess_name))
                # the successor the specification allows for this observation
                match = [(lab, tk) for lab, tk in g.edges_from(k)
                         if lab['method'] == m and lab['guess'] == guess_name and lab['success'] == ok and lab['eq'] == eqc and lab['clos'] == clc]
                if not ok:
                    ctx.skip('solve did not converge (not judged)')
                if not match:
                    clause = 'PrismEquationHolds' if eqc == 'beyond' else 'ClosureHolds'
                    if clause not in fails:
                        fails.add(clause)
                        ctx.violation(clause, {'family': 'replay.PrismSolve', 'action': 'Solve', 'method': m, 'guess': guess_name, 'config': st['cfg'],
                                               'system': c, 'success': ok, 'eq_ratio': ev['eq'], 'clos_ratio': ev['clos'], 'worst_closure_point': ev.get('clos_at'),
                                               'solver_residual_max': ev.get('fun_max'), 'detail': 'a solve reported success but the stored arrays do not satisfy the '
                                               + ('PRISM equation' if eqc == 'beyond' else 'closure of a pair') + ' for the inputs the user specified'})
                    break
                if ok:
                    judged += 1
                k = match[0][1]
    ctx.traces += judged
    ctx.exhaustive['binding: sampled solve configurations'] = False
    ctx.stage('replay.PrismSolve', configurations_tried=done, successful_solves_judged=judged, methods=methods)
    if judged < 5:      # vacuity guard
        raise MachineryError('only %d solves reported success: the solved-object statements were not exercised' % judged)
    # direction B
    os.environ['VERIF_CLOSURE_TERMS'] = terms_path
    ev1, i1 = tracecheck.record_pytest(ctx, ['PRISM_test.py', 'CalcPRISM_test.py', 'System_test.py'], 'suite_solve')
    ev2, i2 = tracecheck.record_driver(ctx, 'prism_driver', [ctx.seed, 'calc', 3 if thorough else 1], 'driver_solve')
    ev3, i3 = tracecheck.record_driver(ctx, 'prism_driver', [ctx.seed, 'sweep', 2 if thorough else 1], 'driver_sweep')
    tracecheck.solve_traces(ctx, [('suite', ev1, i1), ('driver.calc', ev2, i2), ('driver.sweep', ev3, i3)])


def run(ctx):
    thorough = ctx.tier == 'thorough'
    ctx.notes['rule'] = ('(A) every non-singular seeded instance (rank 1-3) evaluated exactly by TLC and as one wavenumber of a real PRISM object; '
                         '(B) solve configurations (rank x closure/potential/omega pattern) x method x guess enumerated by TLC, a seeded sample '
                         'solved; distinct = instances + (configuration, method, guess) triples')
    ctx.trusted += ['TLC 1.8.0', 'harness/prism_eval.py (independent evaluator from the user inputs)', 'harness/refmath.py dense transforms', 'harness/termeval.py']
    ctx.assumptions += ['Martynov-Sarkisov closures are not part of the solved configurations (their formula is the recorded C09 finding)',
                        'PRISM equation judged at 1e-9 x cond(I - Omega C) relative (it holds identically between the stored arrays; only round trips enter)',
                        'closure judged at 1.5 x slope x |fun|/r + 1e-8 (1 + |c| + |gamma|); points within 1e-6 of sigma that are not bitwise <= sigma skipped',
                        'unconverged solves are skipped and counted']
    import time
    t0 = time.time()
    terms_path = closure_terms(ctx)
    algebra(ctx, thorough)
    t1 = time.time()
    solved(ctx, thorough, terms_path)
    ctx.stage('timing', algebra_s=round(t1 - t0, 1), solved_s=round(time.time() - t1, 1))
