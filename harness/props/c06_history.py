"""C06 - post-processing is history independent and never corrupts the solved object.

spec/PostProc.tla: flags / representation / content of the three stored arrays; each calculate
variant may move the arrays it needs to the needed space or leave/restore them (nondeterministic,
the property does not prescribe which); TLC checks ContentsPristine, FlagTruthful, NoSpaceError,
ResultDependsOnlyOnContents, SolveLeavesRoot.  Replay: every label sequence up to depth D (and
random deeper ones) is executed on real solved PRISM objects; after each call the real arrays are
compared with the pristine content IN THE SPACE THE FLAG CLAIMS, the projected flags select the
successor in the TLC graph, and the returned value is compared with the one from a fresh,
identically solved object."""
import copy
import warnings

import numpy as np

from harness.core import run_tlc, require_clean, MachineryError
from harness.graph import Graph, NondetWalker, Adapter
from harness import systems, tracecheck
from harness.refmath import mono

TOL = 1e-9


def cfg(rank, maxresolve, deviant=False, edge=True):
    return '\n'.join([
        'CONSTANTS Rank = %d' % rank, 'MaxResolve = %d' % maxresolve, 'Deviant = %s' % ('TRUE' if deviant else 'FALSE'),
        'INIT MCInit', 'NEXT Next', 'VIEW View', 'CHECK_DEADLOCK FALSE',
        'INVARIANTS ContentsPristine FlagTruthful NoSpaceError ResultDependsOnlyOnContents SolveLeavesRoot',
        'ACTION_CONSTRAINT %s' % ('Edge' if edge else 'NoEdge'), ''])


ARR = {'H': 'totalCorr', 'C': 'directCorr', 'W': 'omega'}


def call_variant(p, fn, arg):
    import pyPRISM
    f = getattr(pyPRISM.calculate, fn)
    if arg == '-':
        return f(p)
    k, v = arg.split('=')
    if v in ('True', 'False'):
        v = (v == 'True')
    return f(p, **{k: v})


def flatten(ret, types):
    """numeric content of a calculate.* return value as {name: array}"""
    from pyPRISM.core.MatrixArray import MatrixArray
    from pyPRISM.core.PairTable import PairTable
    if isinstance(ret, MatrixArray):
        return {'data': np.array(ret.data, dtype=float), 'space': ret.space.name}
    if isinstance(ret, PairTable):
        out = {}
        for a in types:
            for b in types:
                v = ret[a, b]
                if v is not None:
                    out['%s,%s' % (a, b)] = np.atleast_1d(np.array(v, dtype=float))
        return out
    raise MachineryError('unexpected return type %r' % type(ret))


def scribble(ret):
    """what a caller may do with a value handed to him: overwrite it in place (normalise it, subtract one, zero it).  The returned
    object is the caller's; nothing the library returns LATER may depend on what became of it (action ScribbleReturned of
    PostProc.tla: a stuttering step)"""
    from pyPRISM.core.MatrixArray import MatrixArray
    from pyPRISM.core.PairTable import PairTable
    if isinstance(ret, MatrixArray):
        try:
            ret.data[...] = -7.0
        except (ValueError, TypeError):      # a read-only buffer cannot be scribbled on: fine
            pass
    elif isinstance(ret, PairTable):
        for i, (a, b), v in ret.iterpairs():
            if isinstance(v, np.ndarray):
                try:
                    v[...] = -7.0
                except (ValueError, TypeError):
                    pass


def both_spaces(dom, data, space):
    """reference representations of an array in both spaces, by the Domain of a pristine deep copy"""
    from pyPRISM.core.MatrixArray import MatrixArray
    from pyPRISM.core.Space import Space
    m = MatrixArray(length=data.shape[0], rank=data.shape[1], data=data.copy(), space=Space.Real if space == 'R' else Space.Fourier)
    other = m.get_copy()
    if space == 'R':
        dom.MatrixArray_to_fourier(other)
        return {'R': m.data, 'F': other.data}
    dom.MatrixArray_to_real(other)
    return {'F': m.data, 'R': other.data}


class Solved(object):
    """a solved system with its pristine snapshot and the reference value of every call variant"""

    def __init__(self, cfgdict, variants):
        self.cfg = cfgdict
        self.sys, self.p, res = systems.solve(cfgdict)
        if not res.success:
            raise MachineryError('reference system did not converge')
        self.types = list(cfgdict['types'])
        self.snapshot(self.p, variants, 0)

    def snapshot(self, p, variants, epoch):
        if not hasattr(self, 'pristine'):
            self.pristine, self.ref = {}, {}
        pr = {}
        for x, attr in ARR.items():
            m = getattr(p, attr)
            pr[x] = both_spaces(copy.deepcopy(p.sys.domain), np.array(m.data), m.space.name[0])
        self.pristine[epoch] = pr
        refs = {}
        for (fn, arg) in variants:
            fresh = copy.deepcopy(p)
            with warnings.catch_warnings():
                warnings.simplefilter('ignore')
                try:
                    refs[(fn, arg)] = flatten(call_variant(fresh, fn, arg), self.types)
                except Exception as ex:   # the fresh-object value itself cannot be produced
                    refs[(fn, arg)] = ex
        self.ref[epoch] = refs


class PostAdapter(Adapter):
    module = 'PostProc'

    def __init__(self, solved, variants):
        self.s = solved
        self.variants = variants

    def new(self, state):
        return {'p': copy.deepcopy(self.s.p), 'epoch': 0, 'local': None}

    def clone(self, w):
        return {'p': copy.deepcopy(w['p']), 'epoch': w['epoch'], 'local': w['local']}

    def pristine(self, w):
        return w['local'][0] if w['local'] else self.s.pristine[0]

    def refs(self, w):
        return w['local'][1] if w['local'] else self.s.ref[0]

    def step(self, w, l):
        from pyPRISM.core.Space import Space
        p = w['p']
        act = l['act']
        with warnings.catch_warnings():
            warnings.simplefilter('ignore')
            if act == 'Calc':
                try:
                    ret = call_variant(p, l['fn'], l['arg'])
                except Exception as ex:
                    return {'raises': '%s: %s' % (type(ex).__name__, ex)}
                out = {'raises': '', 'ret': flatten(ret, self.s.types)}
                scribble(ret)
                return out
            if act == 'UserTransform':
                m = getattr(p, ARR[l['array']])
                try:
                    if l['to'] == 'F':
                        p.sys.domain.MatrixArray_to_fourier(m)
                    else:
                        p.sys.domain.MatrixArray_to_real(m)
                except Exception as ex:
                    return {'raises': '%s: %s' % (type(ex).__name__, ex)}
                return {'raises': ''}
            if act == 'Resolve':
                x0 = np.copy(p.minimize_result.x)
                try:
                    res = p.solve(guess=x0, options={'disp': False})
                except Exception as ex:
                    return {'raises': '%s: %s' % (type(ex).__name__, ex)}
                if not res.success:
                    return {'_skip': True}
                # new solved content: re-snapshot; are the stored arrays those of the returned root?
                tmp = Solved.__new__(Solved)
                tmp.types = self.s.types
                tmp.snapshot(p, self.variants, 0)
                w['local'] = (tmp.pristine[0], tmp.ref[0])
                w['epoch'] += 1
                fresh = p.sys.createPRISM()
                fresh.cost(np.copy(res.x))
                atroot = True
                worst = 0.0
                for x, attr in ARR.items():
                    a, b = getattr(p, attr), getattr(fresh, attr)
                    ref = both_spaces(copy.deepcopy(p.sys.domain), np.array(b.data), b.space.name[0])[a.space.name[0]]
                    e = float(np.max(np.abs(a.data - ref))) / max(1e-300, float(np.max(np.abs(ref))))
                    worst = max(worst, e)
                    if e > 1e-8:
                        atroot = False
                return {'raises': '', 'atroot': atroot, 'atroot_err': worst}
        raise MachineryError('unknown action ' + act)

    def project_checked(self, w):
        """abstract state of the real object + list of violated clauses"""
        p = w['p']
        pr = self.pristine(w)
        flags, bad = {}, []
        for x, attr in ARR.items():
            m = getattr(p, attr)
            f = m.space.name[0]
            flags[x] = f
            data = np.asarray(m.data, dtype=float)
            if f not in pr[x]:
                bad.append(('FlagTruthful', {'array': attr, 'what': 'flag is %s' % m.space.name}))
                continue
            ref = pr[x][f]
            scale = float(np.max(np.abs(ref)))
            if data.shape != ref.shape:
                bad.append(('ContentsPristine', {'array': attr, 'what': 'shape changed'}))
                continue
            err = float(np.max(np.abs(data - ref)))
            if not np.all(np.isfinite(data)) or err > TOL * scale + 1e-12:
                other = 'F' if f == 'R' else 'R'
                eo = float(np.max(np.abs(data - pr[x][other])))
                if eo <= TOL * float(np.max(np.abs(pr[x][other]))) + 1e-12:
                    bad.append(('FlagTruthful', {'array': attr, 'what': 'data is the solved content in %s space but the flag says %s' % (other, f)}))
                else:
                    bad.append(('ContentsPristine', {'array': attr, 'rel_drift': err / max(scale, 1e-300),
                                                     'what': 'stored array no longer holds the solved content'}))
        return {'flag': flags, 'epoch': w['epoch']}, bad

    def diff_obs(self, label, obs):
        out = []
        if obs.get('raises', '') != '':
            out.append(('NoSpaceError', {'observed': obs['raises'], 'what': 'the call raised'}))
            return out
        if label['act'] == 'Resolve' and obs.get('atroot') is False:
            out.append(('SolveLeavesRoot', {'err': obs.get('atroot_err'), 'what': 'stored arrays are not those of cost(minimize_result.x)'}))
        if label['act'] == 'Calc':
            # NB: the world passed to step() carries the epoch; the reference is looked up by the caller
            pass
        return out


class PostAdapterWithRefs(PostAdapter):
    """adds the comparison of return values (needs the world, so it is done in step)"""

    def step(self, w, l):
        obs = PostAdapter.step(self, w, l)
        if l['act'] == 'Calc' and obs.get('raises') == '':
            ref = self.refs(w)[(l['fn'], l['arg'])]
            if isinstance(ref, Exception):
                obs['ret_problem'] = None        # a fresh object cannot produce the value either: reported as NoSpaceError there
                return obs
            # after a re-solve the root differs at solver accuracy from the first one: the value is
            # compared with the re-snapshotted object's own fresh value (same tolerance)
            obs['ret_problem'] = compare_returns(l['fn'], obs['ret'], ref)
        return obs

    def diff_obs(self, label, obs):
        out = PostAdapter.diff_obs(self, label, obs)
        if obs.get('ret_problem'):
            out.append(('ResultDependsOnlyOnContents', dict(obs['ret_problem'], fn=label['fn'], arg=label['arg'])))
        return out


def compare_returns(fn, got, ref, tol=1e-8):
    if set(got) != set(ref):
        return {'what': 'different keys', 'expected': sorted(ref), 'observed': sorted(got)}
    for k in ref:
        if k == 'space':
            continue        # the space the result is returned in is not part of the statement
        a, b = np.asarray(got[k], dtype=float), np.asarray(ref[k], dtype=float)
        if a.shape != b.shape:
            return {'what': 'shape differs', 'key': k}
        if fn in ('pmf', 'solvation_potential'):
            # compared where the reference is finite (pmf: where g is non-zero)
            mask = np.isfinite(b)
            if fn == 'pmf':
                mask &= np.abs(b) < 5.0       # g > e^-5/kT: elsewhere ln g amplifies rounding without bound
            a, b = a[mask], b[mask]
            if a.size == 0:
                continue
        if not np.all(np.isfinite(a)):
            return {'what': 'non-finite value where the fresh object gives a finite one', 'key': k}
        scale = max(float(np.max(np.abs(b))), 1e-300)
        err = float(np.max(np.abs(a - b)))
        if err > tol * scale + 1e-12:
            return {'what': 'value differs from the fresh object', 'key': k, 'rel_err': err / scale}
    return None


def variants_for(rank):
    v = [('pair_correlation', '-'), ('pmf', '-'), ('structure_factor', 'normalize=True'), ('structure_factor', 'normalize=False'),
         ('second_virial', 'extrapolate=True'), ('second_virial', 'extrapolate=False')]
    if rank > 1:
        v += [('chi', 'extrapolate=True'), ('chi', 'extrapolate=False'),
              ('spinodal_condition', 'extrapolate=True'), ('spinodal_condition', 'extrapolate=False'),
              ('solvation_potential', 'closure=HNC'), ('solvation_potential', 'closure=PY')]
    return v


def run(ctx):
    thorough = ctx.tier == 'thorough'
    ctx.notes['rule'] = ('all label sequences (12 call variants, 3 user transforms, re-solve) up to depth D from the solved state, '
                         'executed on real solved PRISM objects; distinct = distinct (abstract state, label) pairs executed; every step '
                         'compares the three stored arrays with the pristine content in the flagged space and the return value with the '
                         'fresh-object value')
    ctx.trusted += ['TLC 1.8.0', 'harness/graph.py NondetWalker', 'the Domain of a pristine deep copy for moving reference arrays between spaces',
                    'copy.deepcopy of a freshly solved object as "a fresh, identically solved object"']
    ctx.assumptions += ['array tolerance 1e-9*max|ref|+1e-12; return values 1e-8 relative; pmf compared where |pmf| < 5',
                        'the space a result is returned in and the post-call flags are not judged (only their truthfulness)']
    plans = [('SYS2', systems.SYS2, 3 if not thorough else 4, 400 if not thorough else 3000)]
    plans.append(('SYS3', systems.SYS3, 2 if not thorough else 3, 200 if not thorough else 2000))
    for name, scfg, depth, nrand in plans:
        rank = len(scfg['types'])
        res = run_tlc('MC_PostProc', cfg(rank, 1), ctx.tmp, seed=ctx.seed)
        require_clean(res, 'PostProc ' + name)
        ctx.add_tlc('PostProc rank %d' % rank, res, exhaustive=True)
        g = Graph(res.records.get('EDGE', []), res.records.get('INIT'))
        variants = variants_for(rank)
        solved = Solved(scfg, variants)
        ad = PostAdapterWithRefs(solved, variants)
        w = NondetWalker(ctx, g, ad, 'replay.PostProc.' + name)
        npaths, complete = w.all_label_paths(depth, budget=None if thorough else 40000)
        nr = w.random_label_walks(nrand, 12, ctx.seed)
        ctx.stage('replay.PostProc.' + name, graph_states=len(g.state), graph_edges=g.n_edges, depth=depth, label_paths=npaths,
                  complete=complete, random_walks=nr, real_calls=w.steps, edges_hit=len(w.edges_hit),
                  duplicate_failures_suppressed=w.dups)
        ctx.sample({'edge': res.records['EDGE'][7]})
    # the composite life cycle (spec/Lifecycle.tla): post-processing interleaved with System edits, further PRISM objects and the
    # three ways of solving - every result still depends on the snapshot of its own object only
    from harness import lifecycle
    lifecycle.run_stage(ctx, thorough, only={'ResultDependsOnSnapshotOnly', 'NoException'}, family='replay.Lifecycle.C06')
    tracecheck.postproc_traces(ctx)
