"""C11 - analytic omega models: finite, equal to the defining pair sum, correct limits, bounded by N.

spec/OmegaModels.tla: the defining pair sum (1/N) Sum_ij w_|i-j|, its weight form, the closed form for
geometric weights and the ring sum, checked against each other by TLC in exact rational arithmetic for
every N <= MaxN (ClosedFormEqualsPairSum, WeightFormEqualsPairSum, TermsAgreeWithDefinitions, RingSum,
LimitAtOne, LimitAtZero, Bounded, PairCount, KoyamaValidity).  The weight-form TERMS are exported and
evaluated by the generic evaluator for the real N and k; the object machine (Construct, Calculate on grid
families) is replayed on the real classes: values against the terms, exact points against TLC's
rationals, limits, bound, independence of the other k in the array, Koyama parameter validation."""
import copy
import math
import warnings

import numpy as np

from harness.core import run_tlc, require_clean, MachineryError
from harness.graph import Graph, Walker, Adapter
from harness import termeval

TOL = 1e-8


def cfg(maxn, objns):
    return '\n'.join(['CONSTANTS MaxN = %d' % maxn, 'ObjNs = {%s}' % ', '.join(str(n) for n in objns),
                      'INIT MCInit', 'NEXT Next', 'VIEW View', 'CHECK_DEADLOCK FALSE',
                      'INVARIANTS KoyamaRejectsOverlap', 'ACTION_CONSTRAINT Edge', ''])


def q(x):
    return x[0] / x[1]


def grids(name):
    from pyPRISM.core.Domain import Domain
    if name == 'domain_dr':
        return np.array(Domain(1024, dr=0.1).k)
    if name == 'domain_dk':
        return np.array(Domain(256, dk=0.004).k)
    lg = np.logspace(-4, 3, 57)
    if name == 'reversed':
        return lg[::-1].copy()
    return lg


def make(kind, N, par=None):
    import pyPRISM.omega as O
    with warnings.catch_warnings():
        warnings.simplefilter('ignore')
        # parameters the way users type them: the chain length as int or float, lengths as float or int
        n_arg = float(N) if N % 3 == 0 else N
        sig = 1 if N % 2 == 0 else 1.1
        if kind == 'Gaussian':
            return O.Gaussian(sigma=sig, length=n_arg), {'sigma': float(sig), 'scale': float(sig)}
        if kind == 'FreelyJointedChain':
            bl = 1 if N % 2 == 0 else 0.9
            return O.FreelyJointedChain(length=n_arg, l=bl), {'l': float(bl), 'scale': float(bl)}
        if kind == 'GaussianRing':
            return O.GaussianRing(sigma=sig, length=N), {'sigma': float(sig), 'scale': float(sig)}
        if kind == 'SingleSite':
            return O.SingleSite(), {'scale': 1.0}
        if kind == 'NoIntra':
            return O.NoIntra(), {'scale': 1.0}
        if kind == 'NonOverlappingFreelyJointedChain':
            return O.NonOverlappingFreelyJointedChain(length=N, l=1.0), {'l': 1.0, 'scale': 1.0}
        if kind == 'DiscreteKoyama':
            s, l, lp = [q(x) for x in par]
            return O.DiscreteKoyama(sigma=s, l=l, length=N, lp=lp), {'scale': l}
    raise MachineryError(kind)


def expected(kind, N, env, k, terms, obj):
    """value of the specification's term on the array k (blocks of k to bound memory)"""
    if kind == 'NonOverlappingFreelyJointedChain':
        return None
    t = terms[kind]
    out = np.empty(len(k))
    step = max(1, 4000000 // max(int(N), 1))
    for a in range(0, len(k), step):
        e = dict(env)
        e['N'] = float(N)
        e['k'] = k[a:a + step]
        if kind == 'DiscreteKoyama':
            kk = e['k']
            e['kernel'] = lambda n, kk=kk: np.array([obj.koyama_kernel_fourier(kk, int(x)) for x in np.ravel(n)]).reshape(np.shape(n)[:1] + kk.shape)
        with np.errstate(all='ignore'):
            out[a:a + step] = np.asarray(termeval.ev(t, e), dtype=float) * np.ones(len(e['k']))
    return out


class OmegaAdapter(Adapter):
    module = 'OmegaModels'

    def __init__(self, ctx, terms, nmax_koyama, nmax=10 ** 9):
        self.ctx, self.terms, self.nmax_koyama, self.nmax = ctx, terms, nmax_koyama, nmax

    def new(self, st):
        return {'obj': None, 'kind': 'none', 'N': 0, 'env': {}, 'par': None}

    def clone(self, w):
        return {'obj': copy.deepcopy(w['obj']), 'kind': w['kind'], 'N': w['N'], 'env': dict(w['env']), 'par': w['par']}

    def step(self, w, l):
        if l['act'] == 'Construct':
            kind, N = l['kind'], l['N']
            if N > self.nmax:
                return {'_skip': True}          # long chains are covered by the edge pass; histories use the shorter ones
            if kind in ('DiscreteKoyama', 'NonOverlappingFreelyJointedChain') and N > self.nmax_koyama:
                return {'_skip': True}          # O(N^2) kernel loops / quadrature: bounded for run time, not judged
            try:
                obj, env = make(kind, N, l.get('par'))
            except ValueError as ex:
                return {'raises': 'ValueError', '_msg': str(ex)[:120]}
            except Exception as ex:
                return {'raises': type(ex).__name__, '_msg': str(ex)[:200]}
            w.update({'obj': obj, 'kind': kind, 'N': N, 'env': env, 'par': l.get('par')})
            return {'raises': 'none'}
        if l['act'] == 'Calculate':
            return self.calculate(w, l)
        raise MachineryError(l['act'])

    def calculate(self, w, l):
        kind, N, obj = w['kind'], w['N'], w['obj']
        k = grids(l['grid'])
        if kind == 'NonOverlappingFreelyJointedChain':
            k = k[::4]                          # quadrature on a 1000-point x grid per k
        k0 = k.tobytes()
        bad = []
        try:
            with np.errstate(all='ignore'), warnings.catch_warnings():
                warnings.simplefilter('ignore')
                v = np.array(obj.calculate(np.array(k)), dtype=float) * np.ones(len(k))
        except Exception as ex:
            return {'_bad': [('Total.%s' % kind, {'kind': kind, 'N': N, 'grid': l['grid'], 'observed': '%s: %s' % (type(ex).__name__, str(ex)[:200]),
                                                   'detail': 'evaluation with valid documented parameters raised'})]}
        det = {'kind': kind, 'N': N, 'grid': l['grid']}
        if k.tobytes() != k0:
            bad.append(('DoesNotModifyK', det))
        if not np.all(np.isfinite(v)):
            i = int(np.argmax(~np.isfinite(v)))
            bad.append(('Finite.%s' % kind, dict(det, k=float(k[i]), observed=str(v[i]))))
            return {'_bad': bad}
        want = expected(kind, N, w['env'], k, self.terms, obj)
        if want is not None:
            err = np.abs(v - want) / np.maximum(np.abs(want), 1e-300) if kind != 'NoIntra' else np.abs(v - want)
            if np.any(err > TOL):
                i = int(np.argmax(err))
                bad.append(('EqualsPairSum.%s' % kind, dict(det, k=float(k[i]), expected=float(want[i]), observed=float(v[i]), rel_err=float(err[i]))))
        # never exceeds N
        if np.any(v > l['bound'] * (1 + 1e-9)):
            i = int(np.argmax(v))
            bad.append(('Bounded.%s' % kind, dict(det, k=float(k[i]), observed=float(v[i]), bound=l['bound'])))
        # limits: the smallest and the largest k of the logarithmic family
        if l['grid'] in ('log', 'reversed', 'single') and kind not in ('NoIntra',):
            s = w['env']['scale']
            ks, vs = float(k.min()), float(v[np.argmin(k)])
            if abs(vs / l['limit0'] - 1.0) > (ks * s) ** 2 * max(N, 1) + 1e-7:
                bad.append(('LimitAtZero.%s' % kind, dict(det, k=ks, observed=vs, expected=l['limit0'])))
            kl, vl = float(k.max()), float(v[np.argmax(k)])
            if abs(vl - l['limitInf']) > 4.0 / (kl * s):
                bad.append(('LimitAtInfinity.%s' % kind, dict(det, k=kl, observed=vl, expected=l['limitInf'])))
        # the value at one k does not depend on which other k are in the array
        if l['grid'] == 'single':
            idx = list(range(0, len(k), 5))
            with np.errstate(all='ignore'), warnings.catch_warnings():
                warnings.simplefilter('ignore')
                one = np.array([float(np.ravel(np.asarray(obj.calculate(np.array([k[i]])), dtype=float) * np.ones(1))[0]) for i in idx])
            dev = np.abs(one - v[idx]) / np.maximum(np.abs(v[idx]), 1e-300)
            if np.any(dev > 1e-12):
                i = int(np.argmax(dev))
                bad.append(('IndependentOfOtherK.%s' % kind, dict(det, k=float(k[idx[i]]), alone=float(one[i]), in_array=float(v[idx[i]]))))
        if l['grid'] == 'reversed':
            with np.errstate(all='ignore'), warnings.catch_warnings():
                warnings.simplefilter('ignore')
                fw = np.array(obj.calculate(np.array(k[::-1])), dtype=float) * np.ones(len(k))
            dev = np.abs(fw[::-1] - v) / np.maximum(np.abs(v), 1e-300)
            if np.any(dev > 1e-12):
                bad.append(('IndependentOfOtherK.%s' % kind, dict(det, what='order of the array changes the values')))
        return {'_bad': bad[:3]}

    def project(self, w):
        if w['kind'] == 'none':
            return {'obj': {'kind': 'none'}}
        return {'obj': {'kind': w['kind'], 'N': w['N'], 'par': w['par'] if w['par'] is not None else []}}

    def diff_state(self, want, got):
        if want['obj']['kind'] != got['obj']['kind'] or want['obj'].get('N') != got['obj'].get('N'):
            return [('State.obj', {'expected': want['obj'], 'observed': got['obj']})]
        return []

    def diff_obs(self, l, obs):
        if l['act'] == 'Construct':
            if obs['raises'] != l['raises']:
                if l['raises'] == 'ValueError':
                    return [('KoyamaRejectsOverlap', {'par': l.get('par'), 'expected': 'ValueError', 'observed': obs['raises']})]
                return [('Construct.%s' % l['kind'], {'kind': l['kind'], 'N': l['N'], 'par': l.get('par'), 'expected': l['raises'], 'observed': obs['raises'],
                                                      'message': obs.get('_msg'), 'detail': 'constructor with valid documented parameters raised'})]
            return []
        return obs.get('_bad', [])


ORDER_WORKER = r'''
import json, sys, warnings
import numpy as np
sys.path.insert(0, sys.argv[1])
from harness.props.c11_omega import make
job = json.load(open(sys.argv[2]))
k = np.logspace(-3, 2, 23)
out = []
for kind, N, par in job:
    try:
        with warnings.catch_warnings():
            warnings.simplefilter('ignore')
            obj, env = make(kind, N, par)
            with np.errstate(all='ignore'):
                out.append((np.asarray(obj.calculate(np.array(k)), dtype=float) * np.ones(len(k))).tolist())
    except Exception as ex:
        out.append({'error': type(ex).__name__})
json.dump(out, open(sys.argv[3], 'w'))
'''


def order_independence(ctx, edges, nmax_heavy):
    """the value an object returns does not depend on which OTHER model objects were constructed and evaluated before it in
    the same process: the same list of objects is evaluated in two fresh interpreters, forwards and backwards"""
    import json
    import os
    import subprocess
    from harness.core import REPO, VERIF
    objs = []
    for e in edges:
        l = e['l']
        if l['act'] != 'Construct' or l['raises'] != 'none':
            continue
        if l['kind'] in ('DiscreteKoyama', 'NonOverlappingFreelyJointedChain') and l['N'] > nmax_heavy:
            continue
        if l['N'] > 1000:
            continue
        objs.append([l['kind'], l['N'], l.get('par')])
    objs.sort(key=lambda o: json.dumps(o))
    res = []
    wfile = os.path.join(ctx.tmp, 'omega_order_worker.py')
    open(wfile, 'w').write(ORDER_WORKER)
    for name, order in (('forward', objs), ('backward', objs[::-1])):
        job, outp = os.path.join(ctx.tmp, 'omega_order_%s.json' % name), os.path.join(ctx.tmp, 'omega_order_%s_out.json' % name)
        json.dump(order, open(job, 'w'))
        env = dict(os.environ, PYTHONPATH=REPO + os.pathsep + VERIF)
        p = subprocess.run(['/venv/bin/python', '-W', 'ignore', wfile, VERIF, job, outp], env=env, stdout=subprocess.PIPE, stderr=subprocess.STDOUT)
        if p.returncode != 0:
            raise MachineryError('order worker failed: ' + p.stdout.decode('utf-8', 'replace')[-800:])
        res.append(json.load(open(outp)))
    fwd, bwd = res[0], res[1][::-1]
    for o, a, b in zip(objs, fwd, bwd):
        ctx.count(('order', json.dumps(o)))
        if isinstance(a, dict) or isinstance(b, dict):
            if a != b:
                ctx.violation('IndependentOfOtherObjects.%s' % o[0], {'family': 'order', 'action': 'Calculate', 'kind': o[0], 'N': o[1], 'par': o[2],
                                                                     'forward': str(a)[:80], 'backward': str(b)[:80], 'detail': 'evaluation succeeds or fails depending on the objects evaluated before'})
                return len(objs)
            continue
        a, b = np.array(a), np.array(b)
        err = float(np.max(np.abs(a - b) / np.maximum(np.abs(a), 1e-300))) if np.all(np.isfinite(a)) and np.all(np.isfinite(b)) else (0.0 if np.array_equal(a, b, equal_nan=True) else 1.0)
        if err > 1e-12:
            ctx.violation('IndependentOfOtherObjects.%s' % o[0], {'family': 'order', 'action': 'Calculate', 'kind': o[0], 'N': o[1], 'par': o[2], 'rel_diff': err,
                                                                 'detail': 'omega(k) of this object depends on which other model objects were evaluated before it in the process'})
            return len(objs)
    return len(objs)


def exact_points(ctx, res, terms):
    """TLC's exact rationals: (i) validate the evaluator, (ii) the real classes at the k where E(k) is that rational"""
    import pyPRISM.omega as O
    from scipy.optimize import brentq
    n = 0
    for e in res.records['EXACT']:
        N, E, val = e['N'], q(e['E']), q(e['value'])
        got = float(termeval.ev(terms['GeometricWeightForm'], {'N': float(N), 'E': E}))
        if abs(got - val) > 1e-12 * max(1.0, abs(val)):
            raise MachineryError('term evaluator disagrees with TLC on the weight form N=%d E=%s: %r vs %r' % (N, e['E'], got, val))
        if E != 1.0:
            got = float(termeval.ev(terms['ClosedForm'], {'N': float(N), 'E': E}))
            if abs(got - val) > 1e-11 * max(1.0, abs(val)):
                raise MachineryError('term evaluator disagrees with TLC on the closed form N=%d E=%s' % (N, e['E']))
        cases = []
        if 0 < E < 1:
            cases.append(('Gaussian', O.Gaussian(sigma=1.0, length=N), math.sqrt(-6.0 * math.log(E))))
        if -0.21 < E < 1 and E != 0:
            f = lambda x: math.sin(x) / x - E      # noqa: E731
            x = brentq(f, 1e-9, math.pi) if E > 0 else brentq(f, math.pi, 4.4)
            cases.append(('FreelyJointedChain', O.FreelyJointedChain(length=N, l=1.0), x))
        for kind, obj, kk in cases:
            v = float(np.asarray(obj.calculate(np.array([kk])))[0])
            n += 1
            ctx.count(('exact', kind, N, e['E'][0], e['E'][1]))
            if abs(v - val) > 1e-10 * max(1.0, abs(val)):
                ctx.violation('ExactPoint.%s' % kind, {'family': 'exact', 'action': 'Calculate', 'kind': kind, 'N': N, 'E': e['E'], 'k': kk,
                                                       'expected': e['value'], 'observed': v, 'detail': 'value differs from the exact pair sum TLC computed'})
    for e in res.records['RING']:
        N, G, val = e['N'], q(e['G']), q(e['value'])
        kk = math.sqrt(-6.0 * N * math.log(G))
        v = float(np.asarray(O.GaussianRing(sigma=1.0, length=N).calculate(np.array([kk])))[0])
        got = float(np.ravel(termeval.ev(terms['GaussianRing'], {'N': float(N), 'k': np.array([kk]), 'sigma': 1.0}))[0])
        if abs(got - val) > 1e-12 * max(1.0, abs(val)):
            raise MachineryError('term evaluator disagrees with TLC on the ring sum N=%d' % N)
        n += 1
        ctx.count(('exact', 'ring', N, e['G'][0], e['G'][1]))
        if abs(v - val) > 1e-10 * max(1.0, abs(val)):
            ctx.violation('ExactPoint.GaussianRing', {'family': 'exact', 'action': 'Calculate', 'kind': 'GaussianRing', 'N': N, 'G': e['G'], 'k': kk,
                                                      'expected': e['value'], 'observed': v, 'detail': 'value differs from the exact ring sum TLC computed'})
    return n


def unit_invariance(ctx, thorough):
    """UnitInvariantDefinitions (OmegaModels.tla) on the real classes: omega(k) of a chain does not depend on the unit of length -
    the model with all lengths divided by s, evaluated at k s, gives the same numbers.  Binds the contract of the opaque kernels
    (Koyama, NFJC), long chains and small bond lengths included."""
    import pyPRISM.omega as O
    k = np.concatenate([np.logspace(-3, 2, 40), (np.arange(1, 33)) * 0.17])
    cases = [('Gaussian', lambda s, N: O.Gaussian(sigma=0.8 / s, length=N), [2, 7, 150]),
             ('GaussianRing', lambda s, N: O.GaussianRing(sigma=0.8 / s, length=N), [3, 8, 151]),
             ('FreelyJointedChain', lambda s, N: O.FreelyJointedChain(l=0.8 / s, length=N), [2, 7, 150]),
             # NonOverlappingFreelyJointedChain is NOT judged here: its documented defining sum writes the excluded-volume
             # correction with sin(k)/k, i.e. in units of the bond length (only the ideal part uses k l) - for l != 1 the shipped
             # definition itself depends on the unit of length, and the property speaks of "the model's defining sum" (DESIGN 14)
             # bond lengths well below and above 1 in the user's unit, stiff and flexible, short and long
             ('DiscreteKoyama', lambda s, N: O.DiscreteKoyama(sigma=0.05 / s, l=0.05 / s, length=N, lp=0.05 * 4.0 / 3.0 / s), [4, 40, 160 if thorough else 90]),
             ('DiscreteKoyama', lambda s, N: O.DiscreteKoyama(sigma=0.154 / s, l=0.154 / s, length=N, lp=0.3 / s), [5, 60]),
             ('DiscreteKoyama', lambda s, N: O.DiscreteKoyama(sigma=3.0 / s, l=2.5 / s, length=N, lp=12.0 / s), [4, 30])]
    n = 0
    for kind, make, Ns in cases:
        for N in Ns:
            with warnings.catch_warnings():
                warnings.simplefilter('ignore')
                with np.errstate(all='ignore'):
                    try:
                        ref = np.asarray(make(1.0, N).calculate(np.array(k)), dtype=float)
                    except Exception as ex:         # valid documented parameters: the evaluation is total
                        ctx.violation('Total.' + kind, {'family': 'units', 'action': 'Calculate', 'kind': kind, 'N': N, 'length_unit': 1.0,
                                                        'observed': '%s: %s' % (type(ex).__name__, ex), 'detail': 'evaluation raises for valid parameters'})
                        continue
                    for s in (0.05, 8.0, 1000.0):
                        try:
                            got = np.asarray(make(s, N).calculate(np.array(k) * s), dtype=float)
                        except Exception as ex:
                            ctx.violation('Total.' + kind, {'family': 'units', 'action': 'Calculate', 'kind': kind, 'N': N, 'length_unit': s,
                                                            'observed': '%s: %s' % (type(ex).__name__, ex),
                                                            'detail': 'evaluation raises for valid parameters expressed in another unit of length'})
                            break
                        n += 1
                        ctx.count(('units', kind, N, s))
                        err = float(np.max(np.abs(got - ref) / (np.abs(ref) + 1e-3)))
                        if not np.all(np.isfinite(got)) or err > 1e-8:
                            ctx.violation('UnitInvariant', {'family': 'units', 'action': 'Calculate', 'kind': kind, 'N': N, 'length_unit': s, 'rel_err': err,
                                                            'detail': 'omega(k) changes when every length is expressed in another unit (all lengths / s, k * s)'})
                            break
    ctx.stage('unit_invariance', evaluations=n)
    # the chain length the way callers hand it over: a numpy integer of 32 or 64 bits gives what the Python int gives (N = 50000:
    # N * N does not fit 32 bits)
    m = 0
    kk = np.concatenate([np.logspace(-4, 1, 25), (np.arange(1, 17)) * 0.05])
    for kind, make in (('Gaussian', lambda N: O.Gaussian(sigma=1.0, length=N)), ('FreelyJointedChain', lambda N: O.FreelyJointedChain(l=1.0, length=N)),
                       ('GaussianRing', lambda N: O.GaussianRing(sigma=1.0, length=N))):
        for N in (50000, 7):
            with warnings.catch_warnings():
                warnings.simplefilter('ignore')
                with np.errstate(all='ignore'):
                    try:
                        ref = np.asarray(make(int(N)).calculate(np.array(kk)), dtype=float)
                        for typ in (np.int32, np.int64):
                            got = np.asarray(make(typ(N)).calculate(np.array(kk)), dtype=float)
                            m += 1
                            if not (np.all(np.isfinite(got)) and np.max(np.abs(got - ref) / (np.abs(ref) + 1e-3)) <= 1e-9):
                                ctx.violation('EqualsPairSum.' + kind, {'family': 'length_types', 'action': 'Calculate', 'kind': kind, 'N': N, 'length_type': typ.__name__,
                                                                       'detail': 'omega(k) for a chain length given as %s differs from that for the same length as int' % typ.__name__})
                                break
                    except Exception as ex:
                        ctx.violation('Total.' + kind, {'family': 'length_types', 'action': 'Calculate', 'kind': kind, 'N': N,
                                                        'observed': '%s: %s' % (type(ex).__name__, str(ex)[:120]), 'detail': 'evaluation raises for a numpy integer chain length'})
    ctx.stage('length_types', evaluations=m)


def run(ctx):
    thorough = ctx.tier == 'thorough'
    ctx.notes['rule'] = ('model objects (7 kinds x chain lengths, Koyama parameter cases) x grid families exported by TLC and executed on the real '
                         'classes; distinct = (state, call) pairs; every Calculate compares the whole array with the exported weight-form term; '
                         'exact points = (N, E) pairs TLC reduced exactly')
    ctx.trusted += ['TLC 1.8.0', 'harness/termeval.py (validated against TLC on the weight form / closed form / ring sum)',
                    'scipy brentq for the k with sin(kl)/(kl) = E']
    ctx.assumptions += ['relative tolerance 1e-8 against the pair sum (1e-10 at exact points)',
                        'DiscreteKoyama / NFJC replayed for N <= %d only (O(N^2) kernel loop / quadrature)' % (40 if thorough else 12),
                        'Koyama and NFJC weights are the models own kernels: structure, limits, bound and totality are judged, not the kernel formula',
                        'k -> 0 judged at the smallest k of the logarithmic family (1e-4) with slack (k*scale)^2*N; k -> infinity at 1e3 with slack 4/(k*scale)']
    objns = [2, 3, 10, 100, 10000] if not thorough else [2, 3, 7, 10, 33, 100, 1000, 10000]
    res = run_tlc('MC_OmegaModels', cfg(10 if thorough else 8, objns), ctx.tmp, seed=ctx.seed, timeout=3000)
    require_clean(res, 'OmegaModels')
    ctx.add_tlc('OmegaModels', res, exhaustive=True)
    terms = res.records['INFO'][0]['terms']
    nex = exact_points(ctx, res, terms)
    ctx.stage('exact', points=nex)
    g = Graph(res.records['EDGE'], res.records.get('INIT'))
    ctx.sample({'edge': res.records['EDGE'][-1]})
    ctx.sample({'term.Gaussian': terms['Gaussian']})
    ad = OmegaAdapter(ctx, terms, 40 if thorough else 12)
    w = Walker(ctx, g, ad, 'replay.OmegaModels')
    ne = w.cover_edges(stutter=True)
    # the total weight of the defining sum is N^2 (omega -> N as k -> 0) for EVERY chain length: an inductive invariant of the
    # unrolled sum, discharged by Apalache for symbolic N (spec/PairCountInd.tla); TLC checks the same statement for N <= MaxN
    from harness.core import run_apalache
    verdicts = [run_apalache('PairCountInd', 'IndInv', ctx.tmp, init='IndInit', length=1),
                run_apalache('PairCountInd', 'ExitOK', ctx.tmp, init='IndInit', length=0),
                run_apalache('PairCountInd', 'IndInv', ctx.tmp, init='Init', length=0)]
    refuted = run_apalache('PairCountInd', 'BadInv', ctx.tmp, init='Init', length=2)
    if verdicts != ['NoError'] * 3 or refuted != 'Error':
        raise MachineryError('PairCountInd: Apalache verdicts %r (wrong closed form refuted: %r)' % (verdicts, refuted))
    ctx.stage('spec.PairCountInd', tool='Apalache 0.58', statement='for all N >= 2: N + SUM_{n=1}^{N-1} 2 (N - n) = N^2 (inductive invariant acc = (n-1)(2N-n))',
              verdicts=verdicts, wrong_variant_refuted=True)
    unit_invariance(ctx, thorough)
    nord = order_independence(ctx, res.records['EDGE'], 12)
    ctx.stage('order_independence', objects=nord)
    # histories on ONE object: Construct; Calculate(g1); Calculate(g2) [; Calculate(g3)] - an evaluation must not depend on earlier ones
    # (rejected constructions leave no object behind: they are self-loops of the initial state, covered by the edge pass above)
    gh = Graph([e for e in res.records['EDGE'] if not (e['l']['act'] == 'Construct' and e['l']['raises'] != 'none')], res.records.get('INIT'))
    w2 = Walker(ctx, gh, OmegaAdapter(ctx, terms, 12, nmax=1000 if thorough else 100), 'replay.OmegaModels.histories')
    npaths, complete = w2.all_paths(3, budget=None)
    if thorough:        # three evaluations in a row on the short chains
        w3 = Walker(ctx, gh, OmegaAdapter(ctx, terms, 7, nmax=10), 'replay.OmegaModels.histories3')
        n3, _ = w3.all_paths(4, budget=None)
        npaths += n3
    ctx.stage('replay.OmegaModels', graph_states=len(g.state), graph_edges=g.n_edges, edges_replayed=ne, paths=npaths, real_calls=w.steps + w2.steps,
              skipped_steps=w.skipped + w2.skipped)
