"""C18 - Debyer omega equals the direct Debye sum for any thread count / chunking / site order.

spec/Debyer.tla: the chunk table (_chunk) and the OpenMP schedule of one frame (static schedule, private rows
thread_omega[t], load/store grain, barrier, sequential reduction) with every pair carrying a distinct integer weight.
TLC explores every interleaving for small instances and checks ResultIsDebyeSum, RowsArePrivate, ReduceAfterBarrier,
ChunkPartition (all n <= 12, chunks <= 14), OrderIndependent; the deviation "shared_row" must violate them.
Binding: the extension is rebuilt from /repo's Debyer.pyx (cython + gcc -fopenmp) into a scratch directory; the real
_chunk equals the specification's chunk table; omega for seeded trajectories equals the direct Debye sum (float64,
minimum image, computed from the property's formula) for every nthreads (chunks) x OMP_NUM_THREADS combination and
for permuted site orders."""
import json
import os
import subprocess
import sys
import sysconfig

import numpy as np

from harness.core import run_tlc, require_clean, MachineryError, REPO

PY = '/venv/bin/python'
TOL = 5e-5            # float32 accumulation in the extension


def cfg(n1, n2, nc, nt, selfo, m1, m2, dev='none', frames=2, calls=2):
    return '\n'.join(['CONSTANTS N1 = %d' % n1, 'N2 = %d' % n2, 'NC = %d' % nc, 'NT = %d' % nt, 'SelfOmega = %s' % ('TRUE' if selfo else 'FALSE'),
                      'Mol1 <- %s' % m1, 'Mol2 <- %s' % m2, 'Frames = %d' % frames, 'Calls = %d' % calls, 'Deviation = "%s"' % dev, 'INIT Init', 'NEXT Next', 'CHECK_DEADLOCK FALSE',
                      'INVARIANTS ResultIsDebyeSum RowsArePrivate ReduceAfterBarrier CallReturnsAverage', 'PROPERTIES Terminates', ''])


def fair_cfg(text):
    # liveness needs a fairness condition: every thread keeps running
    return text.replace('INIT Init\nNEXT Next', 'SPECIFICATION FairSpec')


def build(ctx):
    """the extension, rebuilt from the current working tree of the repository, outside /repo and /verif"""
    out = os.path.join(ctx.tmp, 'debyer_build')
    os.makedirs(out, exist_ok=True)
    src = os.path.join(REPO, 'pyPRISM', 'trajectory', 'Debyer.pyx')
    c = os.path.join(out, 'Debyer.c')
    p = subprocess.run([PY, '-m', 'cython', '-3', src, '-o', c], stdout=subprocess.PIPE, stderr=subprocess.STDOUT)
    if p.returncode != 0 or not os.path.exists(c):
        return None, p.stdout.decode('utf-8', 'replace')[-1500:]
    import numpy
    so = os.path.join(out, 'Debyer' + sysconfig.get_config_var('EXT_SUFFIX'))
    p = subprocess.run(['gcc', '-O1', '-fPIC', '-shared', '-fopenmp', '-w', '-I' + numpy.get_include(), '-I' + sysconfig.get_paths()['include'], c, '-o', so],
                       stdout=subprocess.PIPE, stderr=subprocess.STDOUT)
    if p.returncode != 0:
        return None, p.stdout.decode('utf-8', 'replace')[-1500:]
    os.remove(c)
    return out, ''


WORKER = r'''
import json, sys
import numpy as np
sys.path.insert(0, sys.argv[1])
import Debyer as D
from pyPRISM import Domain
job = json.load(open(sys.argv[2]))
out = {'chunks': [], 'omega': []}
dom = Domain(dk=0.1, length=8)
for n, c in job['chunks']:
    out['chunks'].append(np.asarray(D.Debyer(domain=dom, nthreads=c)._chunk(n, c)).tolist())
objs = {}
for case in job['cases']:
    p1, p2 = np.array(case['p1']), np.array(case['p2'])
    m1, m2 = np.array(case['m1'], dtype=np.int64), np.array(case['m2'], dtype=np.int64)
    box = np.array(case['box'])
    res = []
    for nt in case['nthreads']:
        # ONE Debyer object per (chunk count, grid), reused for every trajectory that comes along - the way the class
        # documentation uses it (omega_1_1, then omega_1_2 from the same object)
        key = (nt, case['dk'], case['bins'])
        if key not in objs:
            objs[key] = D.Debyer(domain=Domain(dk=case['dk'], length=case['bins']), nthreads=nt)
        try:
            res.append(np.asarray(objs[key].calculate(p1, p2, m1, m2, box, bool(case['self'])), dtype=float).tolist())
        except Exception as ex:
            res.append({'error': '%s: %s' % (type(ex).__name__, str(ex)[:200])})
    out['omega'].append(res)
json.dump(out, open(sys.argv[3], 'w'))
'''


def direct(p1, p2, m1, m2, box, selfo, k):
    """the definition: delta_ab + C_ab < SUM_ij sin(k r_ij)/(k r_ij) > over intramolecular pairs, minimum image"""
    out = np.zeros(len(k))
    for f in range(p1.shape[0]):
        d = np.abs(p1[f][:, None, :] - p2[f][None, :, :])
        L = box[f]
        d = np.where(d > L / 2, d - L, d)
        r = np.sqrt((d ** 2).sum(-1))
        same = (m1[:, None] == m2[None, :])
        if selfo:
            same = same & ~np.eye(len(m1), dtype=bool)
        rr = r[same]
        out += np.array([np.sum(np.sin(kk * rr) / (kk * rr)) for kk in k])
    out /= p1.shape[0]
    return (1.0 if selfo else 0.0) + out / (len(m1) if selfo else len(m1) + len(m2))


def make_cases(rng, thorough):
    cases = []
    for it in range(120 if thorough else 8):
        selfo = bool(it % 2 == 0)
        F = int(rng.integers(1, 4)) if it % 3 == 0 else int(rng.integers(2, 5))      # several frames whenever the box changes
        n1 = int(rng.choice([2, 3, 5, 8, 13, 24, 37]))
        n2 = n1 if selfo else int(rng.choice([1, 4, 9, 20]))
        if not selfo:
            # the cross case in both shapes, in turn: a few sites against many (fewer sites than chunks), and many against a few
            n1, n2 = [(int(rng.choice([2, 3, 5])), int(rng.choice([9, 20, 31]))), (int(rng.choice([13, 24, 37])), int(rng.choice([1, 4])))][(it // 2) % 2]
        L = float(rng.choice([6.0, 10.0, 50.0]))
        # the box of every frame is its own: constant, breathing isotropically (all frames cubic, different edges - NPT), or
        # changing shape from frame to frame
        shape = it % 3
        grow = 1.0 + 0.15 * np.arange(F).reshape(-1, 1)
        if shape == 0:
            box = np.repeat([[L, L * 1.3, L * 0.9]], F, axis=0)
        elif shape == 1:
            box = np.repeat([[L, L, L]], F, axis=0) * grow
        else:
            box = np.repeat([[L, L * 1.3, L * 0.9]], F, axis=0) * np.hstack([grow, 1.0 / grow, np.ones_like(grow)])
        p1 = rng.uniform(0, 1, (F, n1, 3)) * box[:, None, :]
        p2 = p1 if selfo else rng.uniform(0, 1, (F, n2, 3)) * box[:, None, :]
        nm = int(rng.integers(1, 4))
        m1 = rng.integers(0, nm, n1)
        m2 = m1 if selfo else rng.integers(0, nm, n2)
        # "for any molecule labels": the labels only say which sites share a molecule - small consecutive integers, but also
        # labels beyond 32 bits (ids composed from several fields), negative ones, and multiples of 2^32 (equal low words)
        style = it % 4
        relabel = {0: lambda m: m, 1: lambda m: m + 2 ** 31 + 5, 2: lambda m: (m + 1) * 2 ** 32, 3: lambda m: -7 - 3 * m}[style]
        m1 = relabel(m1.astype(np.int64))
        m2 = m1 if selfo else relabel(m2.astype(np.int64))
        nts = sorted(set([1, 2, 3, 5, 7, 16, max(n1 - 1, 1), n1, n1 + 3]))
        cases.append({'self': selfo, 'p1': p1.tolist(), 'p2': p2.tolist(), 'm1': m1.tolist(), 'm2': m2.tolist(), 'box': box.tolist(),
                      'dk': 0.1 if it % 3 else 0.37, 'bins': 24, 'nthreads': nts})
        if selfo and n1 >= 3:
            # the same trajectory with the sites listed in another order
            perm = rng.permutation(n1)
            cases.append(dict(cases[-1], p1=p1[:, perm, :].tolist(), p2=p1[:, perm, :].tolist(), m1=m1[perm].tolist(), m2=m1[perm].tolist(),
                              permuted_from=len(cases) - 1))
    return cases


def run(ctx):
    thorough = ctx.tier == 'thorough'
    ctx.notes['rule'] = ('TLC: every interleaving of the chunk tasks over the OpenMP threads for instances of 2-4 sites x chunks 1..6 x threads 1..3 '
                         '(self and cross, two molecule partitions); binding: seeded trajectories x chunk counts x OMP_NUM_THREADS on the rebuilt '
                         'extension; distinct = (trajectory, chunk count, thread count) executions + chunk tables compared')
    ctx.trusted += ['TLC 1.8.0', 'cython 3.3 + gcc -fopenmp (build of the extension under test)', 'float64 direct Debye sum written from the property text']
    ctx.assumptions += ['sites are distinct (r_ij > 0); positions inside the box; molecule labels int64',
                        'the extension accumulates in float32: agreement judged at 5e-5 (1 + |omega|); different chunkings may differ at that level',
                        'the OpenMP runtime implements schedule(static,1) as specified (iteration t on thread t mod NT) - the statements hold for every interleaving anyway']
    # ---- specification
    plans = []
    for nc in (1, 2, 3, 4, 6):
        for nt in (1, 2, 3):
            plans.append((4, 4, nc, nt, True, 'MolA', 'MolA'))
            plans.append((4, 4, nc, nt, True, 'MolB', 'MolB'))
            plans.append((3, 2, nc, nt, False, 'MolC', 'MolD'))
    if not thorough:
        plans = [p for p in plans if p[2] in (1, 3, 6) or p[3] == 2]
    chunks = None
    from concurrent.futures import ThreadPoolExecutor

    def one(pl):
        n1, n2, nc, nt, selfo, m1, m2 = pl
        text = cfg(n1, n2, nc, nt, selfo, m1, m2)
        # liveness (Terminates under weak fairness) on the configurations with real concurrency
        text = fair_cfg(text) if (nt >= 2 and nc >= 3) else text.replace('PROPERTIES Terminates\n', '')
        return pl, run_tlc('MC_Debyer', text, ctx.tmp, seed=ctx.seed, workers=1, coverage=False)
    with ThreadPoolExecutor(max_workers=8) as ex:
        outs = list(ex.map(one, plans))
    for (n1, n2, nc, nt, selfo, m1, m2), res in outs:
        require_clean(res, 'Debyer N1=%d N2=%d NC=%d NT=%d' % (n1, n2, nc, nt))
        ctx.add_tlc('Debyer %s N1=%d N2=%d NC=%d NT=%d %s' % ('self' if selfo else 'cross', n1, n2, nc, nt, m1), res, exhaustive=True)
        chunks = chunks or res.records.get('CHUNKS', [None])[0]
    for dev, expect in (('shared_row', ('RowsArePrivate', 'ResultIsDebyeSum')), ('no_frame_reset', ('ResultIsDebyeSum', 'CallReturnsAverage')),
                        ('stale_accumulator', ('CallReturnsAverage',))):
        res = run_tlc('MC_Debyer', cfg(4, 4, 6, 2, True, 'MolB', 'MolB', dev=dev).replace('PROPERTIES Terminates\n', ''), ctx.tmp, seed=ctx.seed, coverage=False)
        if res.violated not in expect:
            raise MachineryError('deviation %s does not violate the statements: %s' % (dev, res.violated or res.error))
        ctx.stage('spec.deviation', deviation=dev, violated=res.violated)
    # ---- the chunk partition for EVERY number of sites and chunks (spec/ChunkInd.tla, Apalache: one SMT query over unbounded
    #      integers); the refutation of the floor-division variant shows the query is not vacuous
    from harness.core import run_apalache
    v1 = run_apalache('ChunkInd', 'Partition', ctx.tmp)
    v2 = run_apalache('ChunkInd', 'BadPartition', ctx.tmp)
    if v2 != 'Error':
        raise MachineryError('Apalache did not refute the deliberately wrong chunking (vacuous query?)')
    ctx.stage('spec.ChunkInd', tool='Apalache 0.58 (--cinit=CInit --length=0)', statement='for all n >= 1, c >= 1, i < n: exactly one chunk row holds i; rows within 0..n',
              verdict=v1, wrong_variant_refuted=True)
    if v1 != 'NoError':      # a defect of the specification, not of the code
        raise MachineryError('Apalache found n, c, i for which the chunk rows of the SPECIFICATION do not partition the sites')
    # ---- build
    bdir, log = build(ctx)
    if bdir is None:
        ctx.violation('ExtensionBuilds', {'family': 'build', 'action': 'cythonize', 'detail': 'pyPRISM/trajectory/Debyer.pyx does not build with the installed cython/numpy/gcc', 'what': log})
        return
    rng = np.random.default_rng(ctx.seed)
    cases = make_cases(rng, thorough)
    chunk_q = [(n, c) for n in range(1, 13) for c in range(1, 15)]
    job = os.path.join(ctx.tmp, 'debyer_job.json')
    json.dump({'chunks': chunk_q, 'cases': cases}, open(job, 'w'))
    wfile = os.path.join(ctx.tmp, 'debyer_worker.py')
    open(wfile, 'w').write(WORKER)
    results = {}
    omps = [1, 2, 3, 16] if not thorough else [1, 2, 3, 4, 7, 16]
    for omp in omps:
        outp = os.path.join(ctx.tmp, 'debyer_out_%d.json' % omp)
        env = dict(os.environ, OMP_NUM_THREADS=str(omp), PYTHONPATH=REPO, OMP_DYNAMIC='false')
        p = subprocess.run([PY, '-W', 'ignore', wfile, bdir, job, outp], env=env, stdout=subprocess.PIPE, stderr=subprocess.STDOUT, timeout=1800)
        if p.returncode != 0 or not os.path.exists(outp):
            frames = p.stdout.decode('utf-8', 'replace')
            ctx.violation('ExtensionRuns', {'family': 'run', 'action': 'calculate', 'omp_threads': omp, 'detail': 'the worker crashed', 'what': frames[-800:]})
            return
        results[omp] = json.load(open(outp))
    # ---- chunk table = specification's
    fails = set()
    for (n, c), got in zip(chunk_q, results[omps[0]]['chunks']):
        want = chunks[n - 1][c - 1]
        ctx.count(('chunk', n, c))
        if got != want and 'chunk' not in fails:
            fails.add('chunk')
            ctx.violation('ChunkTable', {'family': 'replay.chunk', 'action': '_chunk', 'n': n, 'chunks': c, 'expected': want, 'observed': got,
                                         'detail': 'Debyer._chunk differs from the chunk table of the specification (whose rows partition the sites)'})
    # ---- omega = direct Debye sum, for every chunk count and thread count, and for permuted sites
    nrun = 0
    refs = []
    for ci, case in enumerate(cases):
        dom_k = (np.arange(case['bins']) + 1) * case['dk']
        ref = direct(np.array(case['p1']), np.array(case['p2']), np.array(case['m1']), np.array(case['m2']), np.array(case['box']), case['self'], dom_k)
        refs.append(ref)
        if 'permuted_from' in case:
            if not np.allclose(ref, refs[case['permuted_from']], rtol=1e-12, atol=1e-12):
                raise MachineryError('reference Debye sum is not permutation invariant')
        for omp in omps:
            for nt, om in zip(case['nthreads'], results[omp]['omega'][ci]):
                nrun += 1
                ctx.count(('omega', ci, nt, omp))
                det = {'family': 'replay.omega', 'action': 'calculate', 'case': ci, 'self': case['self'], 'sites': [len(case['m1']), len(case['m2'])],
                       'frames': len(case['p1']), 'nthreads_arg': nt, 'omp_threads': omp, 'permuted': 'permuted_from' in case}
                if isinstance(om, dict):
                    if 'raise' not in fails:
                        fails.add('raise')
                        ctx.violation('CalculateReturns', dict(det, observed=om['error'], detail='calculate raised for a valid trajectory'))
                    continue
                om = np.array(om)
                err = float(np.max(np.abs(om - ref) / (1.0 + np.abs(ref))))
                if not err <= TOL:
                    key = ('sum', case['self'])
                    if key not in fails:
                        fails.add(key)
                        ctx.violation('ResultIsDebyeSum', dict(det, rel_err=err, expected=ref[:4].tolist(), observed=om[:4].tolist(),
                                                              detail='omega differs from the direct Debye sum'))
    ctx.traces += nrun
    ctx.exhaustive['binding: seeded trajectories'] = False
    ctx.stage('replay.Debyer', trajectories=len(cases), executions=nrun, omp_thread_counts=omps, chunk_tables=len(chunk_q))
    ctx.sample({'case': {k: (v if k in ('self', 'nthreads', 'dk', 'bins', 'm1') else '...') for k, v in cases[0].items()}})
