"""C04 - results are invariant under relabelling, species splitting and energy rescaling.

Specification: PrismCore.tla proves on exact instances that ONE evaluation of the cost function is
equivariant under permutations of the site types (PermEquivariant, rank 2-3) and that the split
systems reproduce the unsplit value in every entry (SplitMonatomic, SplitDiblock); ClosureDefs.tla
that every finite potential branch is linear in its energy parameter (EnergyLinear); Reformulate.tla
enumerates which reformulation applies to which base system.  Binding: every exported (base system,
reformulation) edge is executed on real Systems at two levels -
  cost level (solver independent): cost_reformulated(transform(x)) = transform(cost_base(x)) for seeded x;
  solved level: pair_correlation, structure_factor and pmf of the two converged solves agree."""
import copy
import itertools
import math
import warnings

import numpy as np

from harness.core import run_tlc, require_clean, MachineryError
from harness import systems
from harness.props import c01_prismcore as c01

TOL_COST = 1e-9
TOL_SOLVED = 1e-4


def perm_system(c, p):
    """the same physical system with the type list re-ordered: new position i holds old type p[i]"""
    T = c['types']
    d = copy.deepcopy(c)
    d['types'] = [T[p[i] - 1] for i in range(len(T))]
    # the user's script either repeats the same assignment statements as for the base system, or loops over sys.types (then the
    # order of the assignments follows the re-ordered type list): alternately, decided by the permutation itself
    d['assign_order'] = list(c.get('assign_order', T)) if (p[0] + 2 * p[-1]) % 2 == 0 else list(d['types'])
    # pair keys are 'a-b' with a before b IN THE TYPE LIST: re-key
    for name in ('pot', 'clo', 'omega'):
        new = {}
        for a, b in systems.pairs(d['types']):
            k1, k2 = '%s-%s' % (a, b), '%s-%s' % (b, a)
            new['%s-%s' % (a, b)] = c[name][k1] if k1 in c[name] else c[name][k2]
        d[name] = new
    return d


def split_mono(c, ratio):
    """monatomic A -> A, A2 with rho_A : rho_A2 = 1 : ratio, identical interactions"""
    t = c['types'][0]
    rho = c['rho'][t]
    d = copy.deepcopy(c)
    d['types'] = [t, t + '2']
    d['rho'] = {t: rho / (1.0 + ratio), t + '2': rho * ratio / (1.0 + ratio)}
    d['diam'] = {t: c['diam'][t], t + '2': c['diam'][t]}
    k = '%s-%s' % (t, t)
    for name in ('pot', 'clo'):
        d[name] = {'%s-%s' % (a, b): copy.deepcopy(c[name][k]) for a, b in systems.pairs(d['types'])}
    d['omega'] = {'%s-%s' % (t, t): ['SingleSite'], '%s-%s2' % (t, t): ['NoIntra'], '%s2-%s2' % (t, t): ['SingleSite']}
    return d


def split_diblock(c):
    """Gaussian homopolymer of N = 2m sites -> symmetric diblock of its halves with the exact block omegas"""
    t = c['types'][0]
    om = c['omega']['%s-%s' % (t, t)]
    sigma, N = om[1], om[2]
    m = N // 2
    d = copy.deepcopy(c)
    d['types'] = [t, t + '2']
    d['rho'] = {t: c['rho'][t] / 2.0, t + '2': c['rho'][t] / 2.0}
    d['diam'] = {t: c['diam'][t], t + '2': c['diam'][t]}
    k = '%s-%s' % (t, t)
    for name in ('pot', 'clo'):
        d[name] = {'%s-%s' % (a, b): copy.deepcopy(c[name][k]) for a, b in systems.pairs(d['types'])}
    d['omega'] = {'%s-%s' % (t, t): ['Diblock', 'AA', sigma, m, m], '%s-%s2' % (t, t): ['Diblock', 'AB', sigma, m, m],
                  '%s2-%s2' % (t, t): ['Diblock', 'BB', sigma, m, m]}
    return d


def scale_energy(c, s):
    d = copy.deepcopy(c)
    d['kT'] = c['kT'] * s
    for k, spec in d['pot'].items():
        if spec[0] in ('Exponential', 'LennardJones', 'HardCoreLennardJones', 'WCA'):
            spec[1] = spec[1] * s
    return d


def base_system(b, rng):
    c = c01.concrete(b, rng)
    if c is None:
        return None
    if b['om'] == 'gaussian' and b['rank'] == 1:
        t = c['types'][0]
        c['omega']['%s-%s' % (t, t)] = ['Gaussian', 1.0, int(rng.choice([4, 6, 10]))]
    c['assign'] = str(rng.choice(['pair', 'setunset', 'group', 'edit']))      # the idioms users fill the tables with
    c['diam_idiom'] = str(rng.choice(['direct', 'sweep']))
    c['num_style'] = str(rng.choice(['float', 'np', 'int']))
    c['reuse'] = bool(rng.random() < 0.3)
    c['domain_idiom'] = str(rng.choice(['direct', 'setter', 'dk', 'length']))
    return c


def prism_of(c):
    s = systems.build(c)
    with warnings.catch_warnings():
        warnings.simplefilter('ignore')
        return s.createPRISM()


def cost_of(P, x):
    with np.errstate(all='ignore'), warnings.catch_warnings():
        warnings.simplefilter('ignore')
        return np.array(P.cost(np.array(x))).reshape(-1, P.sys.rank, P.sys.rank)


def transform_x(label, x, n, R):
    """the trial vector of the reformulated system that describes the same gamma"""
    X = x.reshape(n, R, R)
    if label['act'] == 'Permute':
        p = [i - 1 for i in label['perm']]
        return X[:, p, :][:, :, p], lambda Y: Y[:, p, :][:, :, p]
    if label['act'] in ('SplitMono', 'SplitDiblock'):
        return np.repeat(np.repeat(X, 2, axis=1), 2, axis=2), lambda Y: np.repeat(np.repeat(Y, 2, axis=1), 2, axis=2)
    return X, lambda Y: Y


def rename_system(c, style):
    """the same system with other type NAMES (same order): names that are prefixes / concatenations of each other, or names that
    differ by case or a trailing blank only"""
    T = c['types']
    pool = {'concat': ['A', 'AB', 'B', 'ABB'], 'near': ['x', 'X', 'x ', ' x']}[style]
    m = {t: pool[i] for i, t in enumerate(T)}
    d = copy.deepcopy(c)
    d['types'] = [m[t] for t in T]
    for name in ('rho', 'diam'):
        d[name] = {m[t]: v for t, v in c[name].items()}
    if 'assign_order' in c:
        d['assign_order'] = [m[t] for t in c['assign_order']]
    for name in ('pot', 'clo', 'omega'):
        new = {}
        for a, b in systems.pairs(T):
            k1, k2 = '%s-%s' % (a, b), '%s-%s' % (b, a)
            new['%s-%s' % (m[a], m[b])] = copy.deepcopy(c[name][k1] if k1 in c[name] else c[name][k2])
        d[name] = new
    return d


def reformulate(c, label):
    if label['act'] == 'Rename':
        return rename_system(c, label['style'])
    if label['act'] == 'Permute':
        return perm_system(c, label['perm'])
    if label['act'] == 'SplitMono':
        return split_mono(c, float(label['ratio']))
    if label['act'] == 'SplitDiblock':
        return split_diblock(c)
    if label['act'] == 'Scale':
        return scale_energy(c, float(label['scale']) / 2.0)        # Scales are given in halves: 1 -> 0.5, 4 -> 2, 15 -> 7.5, 100 -> 50
    raise MachineryError(label['act'])


def sym(x):
    return 0.5 * (x + np.transpose(x, (0, 2, 1)))


def run(ctx):
    thorough = ctx.tier == 'thorough'
    ctx.notes['rule'] = ('base systems (rank x closure/potential/omega pattern) x reformulations (all permutations, split ratios, diblock split, '
                         'energy scales) exported by TLC; each executed on real Systems at the cost level with seeded trial vectors and, for a '
                         'sample, at the solved level; distinct = (base, reformulation) edges executed')
    ctx.trusted += ['TLC 1.8.0', 'harness/systems.py (construction of the reformulated System from the base description)', 'numpy']
    ctx.assumptions += ['cost level: 1e-9 relative to max|y| (same arithmetic in another order)',
                        'solved level: both systems solved with krylov to fatol 1e-10, compared at 1e-4 of max|quantity| (pmf where g > 0.01); unconverged pairs skipped',
                        'energy scaling multiplies epsilon of every finite-range potential and kT; the overlap value of hard cores is not an energy parameter']
    # --- specification: one cost evaluation is equivariant / split-invariant (exact instances)
    for R, seeds in ((2, range(1, 41 if not thorough else 201)), (3, range(1, 7 if not thorough else 41))):
        res = run_tlc('MC_PrismCore', c01.core_cfg(R, list(seeds), edge=False), ctx.tmp, seed=ctx.seed, workers=8, coverage=False)
        require_clean(res, 'PrismCore R=%d (PermEquivariant, SplitMonatomic, SplitDiblock)' % R)
        ctx.add_tlc('PrismCore R=%d permutation/split statements' % R, res, exhaustive=True)
    ranks = [1, 2, 3]
    cfg = '\n'.join(['CONSTANTS Ranks = {%s}' % ', '.join(str(r) for r in ranks),
                     'ClosurePatterns = {"PY", "HNC", "PY/HNC", "PYhc/HNC"}', 'PotentialPatterns = {"HS", "HS+Exp", "HCLJ"}',
                     'OmegaPatterns = {"atomic", "gaussian", "fjc+ring", "copolymer"}', 'Ratios = {1, 3, 9, 40000}', 'Scales = {1, 4, 15, 100}',
                     'INIT MCInit', 'NEXT Next', 'VIEW View', 'CHECK_DEADLOCK FALSE', 'PROPERTIES ContentPreserved', 'ACTION_CONSTRAINT Edge', ''])
    res = run_tlc('MC_Reformulate', cfg, ctx.tmp, seed=ctx.seed)
    require_clean(res, 'Reformulate')
    ctx.add_tlc('Reformulate', res, exhaustive=True)
    edges = res.records['EDGE']
    ctx.sample({'edge': edges[len(edges) // 2]})
    rng = np.random.default_rng(ctx.seed)
    fails = set()
    n_cost = n_solved = 0
    solve_budget = 160 if thorough else 10
    order = rng.permutation(len(edges))
    cache = {}
    for idx in order:
        e = edges[idx]
        b, label = e['from']['base'], e['l']
        key = (b['rank'], b['clo'], b['pot'], b['om'])
        if key not in cache:
            cache[key] = base_system(b, np.random.default_rng([ctx.seed, len(cache)]))
        c = cache[key]
        if c is None:
            continue
        c2 = reformulate(c, label)
        P1, P2 = prism_of(c), prism_of(c2)
        n, R = c['length'], len(c['types'])
        r = np.asarray(P1.sys.domain.r).reshape(-1, 1, 1)
        bad = None
        for fam in ('zero', 'small', 'medium'):
            g = {'zero': 0.0, 'small': 0.2, 'medium': 2.0}[fam] * rng.standard_normal((n, R, R))
            x = (r * sym(g)).reshape(-1)
            X2, back = transform_x(label, x, n, R)
            y1 = cost_of(P1, x)
            y2 = cost_of(P2, X2.reshape(-1))
            want = back(y1)
            n_cost += 1
            ctx.count(('cost', key, label['act'], str(label.get('perm', label.get('ratio', label.get('scale', label.get('style', ''))))), fam))
            if not (np.all(np.isfinite(y1)) and np.all(np.isfinite(want))):
                ctx.skip('non-finite cost of the base system for a trial vector (not judged)')
                continue
            scale = float(np.max(np.abs(want))) + 1e-12
            err = float(np.max(np.abs(y2 - want))) / scale if np.all(np.isfinite(y2)) else float('inf')
            if err > TOL_COST:
                bad = (fam, err)
                break
        clause = {'Permute': 'PermEquivariant', 'SplitMono': 'SplitMonatomic', 'SplitDiblock': 'SplitDiblock', 'Scale': 'EnergyScaleInvariant',
                  'Rename': 'RenameInvariant'}[label['act']]
        if bad and (clause, 'cost') not in fails:
            fails.add((clause, 'cost'))
            ctx.violation(clause + '.cost', {'family': 'replay.cost', 'action': label['act'], 'label': label, 'base': b, 'system': c, 'reformulated': c2,
                                             'trial_family': bad[0], 'rel_err': bad[1],
                                             'detail': 'one evaluation of the cost function of the reformulated system is not the transformed evaluation of the base system'})
        # solved level for a sample
        if n_solved < solve_budget and rng.random() < (0.5 if thorough else 0.25):
            ok = solved_level(ctx, c, c2, label, clause, fails)
            n_solved += 1 if ok else 0
    ctx.traces += n_cost + n_solved
    ctx.exhaustive['binding: seeded trial vectors, sampled solved pairs'] = False
    ctx.stage('replay.Reformulate', edges=len(edges), cost_comparisons=n_cost, solved_pairs=n_solved)
    if n_solved < 3:    # vacuity guard
        raise MachineryError('only %d pairs of systems converged: the solved-level statements were not exercised' % n_solved)


def solved_level(ctx, c, c2, label, clause, fails):
    import pyPRISM
    out = []
    guess = None
    for cc in (c, c2):
        s = systems.build(cc)
        with warnings.catch_warnings():
            warnings.simplefilter('ignore')
            try:
                with np.errstate(all='ignore'):
                    # the reformulated system is solved FROM the transformed solution of the base system: the discretised
                    # equations may have several roots and which one a solve from zero reaches depends on rounding
                    # (benign/B_C01x); equivariance says the transformed solution is a root of the reformulated system
                    P = s.solve(guess=guess, method='krylov', options={'disp': False, 'maxiter': 400, 'fatol': 1e-10})
            except Exception:
                ctx.skip('solve raised (not judged)')
                return False
        if not P.minimize_result.success:
            ctx.skip('solve did not converge (not judged)')
            return False
        if guess is None:
            n0, R0 = int(P.sys.domain.length), int(P.sys.rank)
            guess = np.array(transform_x(label, np.array(P.minimize_result.x, dtype=float), n0, R0)[0], dtype=float).reshape(-1)
        with warnings.catch_warnings():
            warnings.simplefilter('ignore')
            with np.errstate(all='ignore'):
                out.append((np.array(pyPRISM.calculate.pair_correlation(P).data), np.array(pyPRISM.calculate.structure_factor(P, normalize=False).data),
                            np.array(pyPRISM.calculate.pmf(P).data)))
    (g1, s1, w1), (g2, s2, w2) = out
    n, R = g1.shape[0], g1.shape[1]
    _, back = transform_x(label, np.zeros(n * R * R), n, R)
    ctx.count(('solved', label['act'], str(label.get('perm', label.get('ratio', label.get('scale', label.get('style', '')))))))
    cmp = [('pair_correlation', back(g1), g2)]
    if label['act'] in ('Permute', 'Scale', 'Rename'):
        cmp.append(('structure_factor', back(s1), s2))
    fac = float(label['scale']) / 2.0 if label['act'] == 'Scale' else 1.0
    m = np.isfinite(back(w1)) & np.isfinite(w2) & (back(g1) > 1e-2) & (g2 > 1e-2)      # pmf = -kT ln g amplifies by 1/g
    for name, a, bb in cmp + [('pmf', np.where(m, back(w1) * fac, 0.0), np.where(m, w2, 0.0))]:
        err = float(np.max(np.abs(a - bb))) / (float(np.max(np.abs(a))) + 1e-12)
        if not err <= TOL_SOLVED and (clause, name) not in fails:
            fails.add((clause, name))
            ctx.violation(clause + '.solved', {'family': 'replay.solved', 'action': label['act'], 'label': label, 'quantity': name, 'system': c, 'reformulated': c2,
                                               'rel_err': err, 'detail': '%s of the reformulated system differs from the transformed result of the base system' % name})
    return True
