"""C15 - Density / Diameter keep derived quantities consistent under any history.

spec/DensDiam.tla: the setters' loops with the derived tables as stored state; TLC checks
PairOK, SiteOK, TotalOK, SigmaOK, VolumeOK, SymmetricOK in every reachable state.  The exported
graph is replayed on the real classes, once with the spec's integers and once per scale factor
(parametric replay: the spec's values {2,3,5} are mapped to floats phi(v), incl. nearly equal ones)."""
import math
import random

from harness.core import run_tlc, require_clean, MachineryError
from harness.graph import Graph, Walker, Adapter
from harness import tracecheck

NAMES = ['dd', 'd', 'polyB', 'A1']      # one name a substring of another; not in alphabetical order


def cfg(n, nxt, edge=True):
    return '\n'.join([
        'CONSTANTS N = %d' % n, 'Vals <- MC_Vals', 'INIT MCInit', 'NEXT %s' % nxt, 'VIEW View',
        'INVARIANTS PairOK SiteOK TotalOK SigmaOK VolumeOK SymmetricOK',
        'ACTION_CONSTRAINT %s' % ('Edge' if edge else 'NoEdge'), ''])


def num(x):
    """a stored quantity as a float, however the library holds it (float, numpy scalar, length-1 array or list); anything that
    is not ONE number is NaN (and then differs from every expectation)"""
    import numpy as np
    try:
        a = np.asarray(x, dtype=float).reshape(-1)
    except (TypeError, ValueError):
        return float('nan')
    return float(a[0]) if a.size == 1 else float('nan')


def close(a, b, rel=1e-12):
    a, b = num(a), num(b)
    return abs(a - b) <= rel * max(abs(a), abs(b)) + 1e-300


class DDAdapter(Adapter):
    module = 'DensDiam'

    def __init__(self, n, phi, seed):
        """phi: concretisation of the specification's values {2, 3, 5} (parametric replay)"""
        self.n = n
        self.phi = dict(phi)
        self.phi[0] = 0.0
        self.types = NAMES[:n]
        self.rng = random.Random(seed)

    def new(self, state):
        from pyPRISM.core.Density import Density
        from pyPRISM.core.Diameter import Diameter
        return {'rho': Density(list(self.types)), 'd': Diameter(list(self.types))}

    def _keys(self, idx):
        names = [self.types[i - 1] for i in idx]
        if len(names) == 1 and self.rng.random() < 0.5:
            return names[0]
        return tuple(names) if self.rng.random() < 0.3 else names

    def _value(self, x, arrays):
        """the same number the way users hand it over: float, numpy scalar, int, (diameters) a length-1 array"""
        import numpy as np
        c = self.rng.random()
        if c < 0.55:
            return x
        if c < 0.75:
            return np.float64(x)
        if c < 0.85 and float(x) == int(x):
            return int(x)
        if arrays and c >= 0.85:
            return np.array([x])
        return x

    def step(self, w, l):
        act = l['act']
        if act == 'SetDensity':
            w['rho'][self._keys(l['k'])] = self._value(self.phi[l['v']], arrays=False)
            return {}
        if act == 'SetDiameter':
            # values are NUMBERS ("all positive values"): float, numpy scalar, int.  Length-1 arrays were tried as values once
            # (they exposed the seeded change C15_e) and withdrawn: a correct vectorised Diameter (benign/B_C15) legitimately
            # refuses to mix them with floats, so feeding them demanded more than the statement promises
            w['d'][self._keys(l['k'])] = self._value(self.phi[l['v']], arrays=False)
            return {}
        if act in ('DensityCheck', 'DiameterCheck'):
            try:
                (w['rho'] if act == 'DensityCheck' else w['d']).check()
                return {'raises': False}
            except ValueError:
                return {'raises': True}
        raise MachineryError('unknown action ' + act)

    def project(self, w):
        return w      # compared field by field in diff_state (floats, judged entries only)

    def diff_state(self, want, w):
        T, P, out = self.types, self.phi, []
        rho, d = w['rho'], w['d']

        def bad(clause, **kw):
            out.append((clause, kw))
        for i, a in enumerate(T):
            wr = want['rho'][i]
            got = rho[a]
            if (wr == 0) != (got is None) or (wr and not close(got, P[wr])):
                bad('Density.value', type=a, expected=P[wr], observed=got)
            wd = want['diam'][i]
            got = d[a]
            if (wd == 0) != (got is None) or (wd and not close(got, P[wd])):
                bad('Diameter.value', type=a, expected=P[wd], observed=got)
            if want['vol'][i]:
                ev = math.pi * P[want['vol'][i]] ** 3 / 6.0
                gv = d.volume[a]
                if gv is None or not close(gv, ev, 4e-15):
                    bad('VolumeOK', type=a, expected=ev, observed=gv)
        for i, a in enumerate(T):
            for j, b in enumerate(T):
                ri, rj = want['rho'][i], want['rho'][j]
                if ri and rj:
                    # TLC's stored entries (checked by PairOK/SiteOK) identify the densities they were
                    # computed from; the concretisation applies the same definition to phi(values)
                    if want['pair'][i][j] != ri * rj or want['site'][i][j] != (ri if i == j else ri + rj):
                        raise MachineryError('exported state violates PairOK/SiteOK')
                    ep = P[ri] * P[rj]
                    es = P[ri] if i == j else P[ri] + P[rj]
                    gp = float(rho.pair[a, b][0])
                    gs = float(rho.site[a, b][0])
                    if not close(gp, ep):
                        bad('PairOK', pair=[a, b], expected=ep, observed=gp)
                    if not close(gs, es):
                        bad('SiteOK', pair=[a, b], expected=es, observed=gs)
                di, dj = want['diam'][i], want['diam'][j]
                if di and dj:
                    if want['sig2'][i][j] != di + dj:
                        raise MachineryError('exported state violates SigmaOK')
                    eg = (P[di] + P[dj]) / 2.0
                    gg = d.sigma[a, b]
                    g2 = d[a, b]
                    if gg is None or not close(gg, eg) or g2 is None or not close(g2, eg):
                        bad('SigmaOK', pair=[a, b], expected=eg, observed=gg, via_getitem=g2)
        et = 0.0
        for i in range(len(T)):
            et += P[want['rho'][i]]
        if not close(float(rho.total), et):
            bad('TotalOK', expected=et, observed=float(rho.total))
        return out[:3]

    def diff_obs(self, label, obs):
        if 'raises' in label and obs.get('raises') != label['raises']:
            return [('CheckRaisesIffUnassigned', {'expected': label['raises'], 'observed': obs.get('raises')})]
        return []


def run(ctx):
    thorough = ctx.tier == 'thorough'
    ctx.notes['rule'] = ('every reachable (densities, stored derived tables) state x every setter call (each non-empty sub-list '
                         'of the type list in both orders x each value) exported by TLC; distinct = distinct (state, call) pairs '
                         'executed on the real classes; every case compares all stored derived entries of assigned pairs')
    ctx.trusted += ['TLC 1.8.0', 'harness/graph.py', 'float comparison at 1e-12 relative (values are small integers times a scale)']
    ctx.assumptions += ['values are positive; concretisations listed in the stages (scaled and nearly-equal families)']
    n = 3
    def scaled(c):
        return {2: 2 * c, 3: 3 * c, 5: 5 * c}
    # concretisations: the integers themselves, a non-dyadic scale, and two families of NEARLY EQUAL
    # values (a re-assignment by a relative 1e-7 / 1e-10 step, a dilute component of order 1e-9)
    phis = [('x1', scaled(1.0)), ('x0.1', scaled(0.1)),
            ('near', {2: 0.8, 3: 0.8 * (1 + 1e-7), 5: 0.8 * (1 + 3e-10)}),
            ('dilute', {2: 1e-9, 3: 2e-9, 5: 1.0000001e-9})]
    if thorough:
        phis += [('x1/3', scaled(1.0 / 3.0)), ('x7.25', scaled(7.25)),
                 ('near2', {2: 5.0, 3: 5.0 - 2e-6, 5: 5.0 + 4e-13})]
    for nxt, fam in (('DensNext', 'Density'), ('DiamNext', 'Diameter')):
        res = run_tlc('MC_DensDiam', cfg(n, nxt), ctx.tmp, seed=ctx.seed)
        require_clean(res, fam)
        ctx.add_tlc('%s N=%d' % (fam, n), res, exhaustive=True)
        g = Graph(res.records.get('EDGE', []), res.records.get('INIT'))
        if not g.n_edges:
            raise MachineryError('no graph exported for ' + fam)
        edges = res.records['EDGE']
        ctx.sample({'edge': edges[len(edges) // 3]})
        for pname, s in phis:
            w = Walker(ctx, g, DDAdapter(n, s, ctx.seed), 'replay.%s.N%d.%s' % (fam, n, pname))
            ne = w.cover_edges(stutter=True)
            npaths, complete = w.all_paths(3 if (thorough and pname == 'x1') else 2, budget=600000)
            nr = w.random_walks(3000 if thorough else 400, 10, ctx.seed)
            from harness.graph import blind_walks
            blind_walks(w, 1500 if thorough else 200, 8, ctx.seed)          # nothing read before the end of the walk
            ctx.stage('replay.%s' % fam, concretisation=pname, values=s, graph_states=len(g.state), graph_edges=g.n_edges,
                      edges_replayed=ne, paths=npaths, random_walks=nr, real_calls=w.steps)
    if thorough:
        for nxt, fam in (('DensNext', 'Density'), ('DiamNext', 'Diameter')):
            res = run_tlc('MC_DensDiam', cfg(4, nxt, edge=False), ctx.tmp, seed=ctx.seed, workers=16)
            require_clean(res, fam + ' N=4')
            ctx.add_tlc('%s N=4 (invariants only)' % fam, res, exhaustive=True)
    # direction B: Density/Diameter events of the repository's tests and of the System driver
    ev1, i1 = tracecheck.record_pytest(ctx, ['Density_test.py', 'Diameter_test.py', 'System_test.py'], 'suite_densdiam')
    ev2, i2 = tracecheck.record_driver(ctx, 'system_driver', [ctx.seed, 300 if thorough else 40], 'driver_densdiam')
    tracecheck.densdiam_traces(ctx, [('suite', ev1, i1), ('driver', ev2, i2)])
