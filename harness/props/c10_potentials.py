"""C10 - potentials equal their definitions, with consistent cores, cut-offs and sigma.

spec/ClosurePotential.tla (potential-object machine): every potential as branch terms, the
branch at every grid point decided in integer arithmetic (half units of dr), sigma defaulting
as the action Wire.  TLC checks CoreIsContactInclusive, LJZeroBeyondCut, LJShiftContinuous,
WCAStatements, SigmaDefault, CalculatePure.  Replay: the exported graph is walked on the real
potential classes for several concretisations (dr, parameter set, how the user obtained sigma);
`Wire` goes through the real System.createPRISM.  After every Calculate the returned array is
compared point by point with the branch term TLC selected (evaluated by harness/termeval.py on
the very floats the object holds), plus purity / repeatability / elementwise."""
from harness.refmath import same_values
import copy
import math
import warnings
from fractions import Fraction

import numpy as np

from harness.core import run_tlc, require_clean, MachineryError
from harness.graph import Graph, Walker, Adapter
from harness import termeval

TOL_CONTACT = 1e-6          # the tolerance System.check uses to call sigma 'on the grid'


def cfg(L, nxt='PNext', edge=True):
    return '\n'.join([
        'CONSTANTS L = %d' % L, 'Sigmas <- MC_Sigmas', 'Cuts <- MC_Cuts', 'Diams <- MC_Diams',
        'INIT MCPInit', 'NEXT %s' % nxt, 'VIEW PView', 'CHECK_DEADLOCK FALSE',
        'INVARIANTS CoreIsContactInclusive LJZeroBeyondCut LJShiftContinuous WCAStatements VanishAtZero WeakCoupling '
        'CoreBranchValue UnflaggedOnOverlap HardCoreValue',
        'PROPERTIES SigmaDefault CalculatePure',
        'ACTION_CONSTRAINT %s' % ('PEdge' if edge else 'NoEdge'), ''])


class Concretisation(object):
    """dr as a decimal string (the way a user types it), parameter values, and the way the user
    obtains a distance of n half units: 'literal' (types the decimal number) or 'computed' (n*dr/2)"""

    def __init__(self, name, dr, eps, alpha, high, style, int_dr=False):
        self.name, self.dr_s, self.eps, self.alpha, self.high, self.style = name, dr, eps, alpha, high, style
        self.int_dr = int_dr            # dr given as a Python int: the grid arrays then have integer dtype
        self.dr = int(dr) if int_dr else float(dr)

    def dist(self, half_units):
        if self.style == 'literal':
            f = Fraction(self.dr_s) * half_units / 2
            if self.int_dr and f.denominator == 1:
                return int(f)           # the user types "2", not "2.0"
            return float(f)
        return half_units * self.dr / 2.0

    def describe(self):
        return {'dr': self.dr_s, 'dr_is_int': self.int_dr, 'eps': float(self.eps), 'alpha': float(self.alpha), 'high': float(self.high),
                'parameter_types': [type(self.eps).__name__, type(self.alpha).__name__, type(self.high).__name__], 'sigma_style': self.style}


def make_pot(kind, c):
    import pyPRISM.potential as P
    if kind == 'HardSphere':
        return P.HardSphere(high_value=c.high) if (c.high != 1e6 or not isinstance(c.high, float)) else P.HardSphere()
    if kind == 'Exponential':
        return P.Exponential(epsilon=c.eps, alpha=c.alpha, high_value=c.high)
    if kind == 'HardCoreLennardJones':
        return P.HardCoreLennardJones(epsilon=c.eps, high_value=c.high)
    if kind == 'LennardJones':
        return P.LennardJones(epsilon=c.eps)
    if kind == 'WeeksChandlerAndersen':
        return P.WeeksChandlerAndersen(epsilon=c.eps)
    raise MachineryError(kind)


def grid(L, c):
    from pyPRISM.core.Domain import Domain
    return Domain(length=L, dr=c.dr).r


def half_units(x, c):
    """the distance x in half units of dr if it is one (to the contact tolerance), else None"""
    if x is None:
        return 0
    n = int(round(2.0 * x / c.dr))
    return n if abs(x - n * c.dr / 2.0) < TOL_CONTACT else None


def judge_values(kind, c, r, sigma, rcut, got, label, terms):
    """compare the returned array with the branch terms TLC selected; list of (clause, detail)"""
    out = []
    got = np.asarray(got, dtype=float)
    if got.shape != r.shape:
        return [('PotDefinition.%s.shape' % kind, {'observed': list(got.shape)})]
    env = {'sigma': sigma, 'eps': c.eps, 'alpha': c.alpha, 'high': c.high, 'rcut': rcut if rcut is not None else float('nan')}
    for i, (b, reg) in enumerate(zip(label['branch'], label['region'])):
        if b == 'full_atcut':
            continue                                   # the statement does not fix the value AT an unshifted cut
        e = dict(env)
        e['r'] = float(r[i])
        with np.errstate(all='ignore'):
            want = float(termeval.ev(terms[kind][b], e))
            s = sigma / float(r[i])
            scale = abs(want) + abs(c.eps) * (s ** 12 + s ** 6 + 1.0)
        g = float(got[i])
        if b in ('core', 'zero'):
            ok = (g == want)
        else:
            ok = abs(g - want) <= 1e-10 * scale
        if ok:
            continue
        # which other branch did the code take?
        other = None
        for ob, t in terms[kind].items():
            if ob == b:
                continue
            with np.errstate(all='ignore'):
                ov = float(termeval.ev(t, e))
            if abs(g - ov) <= 1e-10 * (abs(ov) + scale):
                other = ob
        det = {'point': i + 1, 'r': float(r[i]), 'sigma': sigma, 'region': reg, 'expected_branch': b, 'expected': want,
               'observed': g, 'observed_branch': other, 'kind': kind}
        if reg == 'contact' and b == 'core':
            cause = 'float_noise' if float(r[i]) != sigma else 'exact'
            det['cause'] = cause
            det['r_minus_sigma'] = float(r[i]) - sigma
            out.append(('ContactIsCore.%s' % cause, det))
        elif b == 'zero' and kind == 'LennardJones':
            out.append(('LJZeroBeyondCut', det))
        elif kind == 'WeeksChandlerAndersen' and (b == 'zero' or other == 'zero'):
            out.append(('WCACutoff', det))
        else:
            out.append(('PotDefinition.%s.%s' % (kind, b), det))
    return out


class PotAdapter(Adapter):
    module = 'ClosurePotential.potential'

    def __init__(self, L, conc, terms, ctx):
        self.L, self.c, self.terms, self.ctx = L, conc, terms, ctx
        self.r = grid(L, conc)

    def new(self, st):
        p = make_pot(st['pot']['kind'], self.c)
        if st['pot']['sigma2']:
            p.sigma = self.c.dist(st['pot']['sigma2'])
        return {'pot': p, 'dia': list(st['dia']), 'kind': st['pot']['kind']}

    def clone(self, w):
        return {'pot': copy.deepcopy(w['pot'], {id(self.r): self.r}), 'dia': list(w['dia']), 'kind': w['kind']}

    def step(self, w, l):
        act, p, c = l['act'], w['pot'], self.c
        if act in ('SetSigma', 'SetCut') and getattr(p, 'sigma', None) is not None:
            # the object has been evaluated with its present parameters before they change (PCalculate leaves the abstract
            # state unchanged, so no walker orders it before a change by itself): Calculate; SetSigma; Calculate
            try:
                with np.errstate(all='ignore'):
                    p.calculate(self.r)
            except Exception:      # noqa
                pass
        if act == 'SetSigma':
            p.sigma = c.dist(l['sigma2'])
            return {}
        if act == 'SetCut':
            p.rcut = c.dist(l['rcut2']) if l['rcut2'] else None
            p.shift = bool(l['shift'])
            return {}
        if act == 'Wire':
            return self.wire(w, l)
        if act == 'Calculate':
            return self.calculate(w, l)
        raise MachineryError('unknown action ' + act)

    def wire(self, w, l):
        """sigma defaulting as it really happens: through System.createPRISM"""
        import pyPRISM
        c = self.c
        s = pyPRISM.System(['A', 'B'], kT=1.0)
        s.domain = pyPRISM.Domain(length=self.L, dr=c.dr)
        s.density['A'] = 0.1
        s.density['B'] = 0.2
        s.diameter['A'] = c.dist(l['dA'])
        s.diameter['B'] = c.dist(l['dB'])
        s.potential[['A', 'B'], ['A', 'B']] = pyPRISM.potential.HardSphere()
        s.potential['A', 'B'] = w['pot']
        s.closure[['A', 'B'], ['A', 'B']] = pyPRISM.closure.PercusYevick()
        s.omega[['A', 'B'], ['A', 'B']] = pyPRISM.omega.SingleSite()
        user_sigma = w['pot'].sigma
        with warnings.catch_warnings():
            warnings.simplefilter('ignore')
            P = s.createPRISM()
        w['pot'] = P.sys.potential['A', 'B']
        obs = {'_closure_potential': np.array(P.sys.closure['A', 'B'].potential), '_closure_sigma': P.sys.closure['A', 'B'].sigma}
        # the caller's potential object is not written to (the snapshot is, C16)
        obs['_caller_sigma_kept'] = (s.potential['A', 'B'].sigma == user_sigma) or (s.potential['A', 'B'].sigma is None and user_sigma is None)
        # explicit sigma wins, otherwise the arithmetic mean of the two diameters
        p = w['pot']
        want_sigma = c.dist(l['sigma2']) if user_sigma is None else user_sigma
        bad = []
        if p.sigma is None or abs(p.sigma - want_sigma) > 1e-12 * max(1.0, want_sigma):
            bad.append(('SigmaDefault', {'expected': want_sigma, 'observed': p.sigma, 'dA': l['dA'], 'dB': l['dB'], 'explicit': user_sigma}))
        # the closure of the pair always gets the mean of the diameters and u(r)/kT of this potential
        cs = obs['_closure_sigma']
        mean = (c.dist(l['dA']) + c.dist(l['dB'])) / 2.0
        if cs is None or abs(cs - mean) > 1e-12 * max(1.0, mean):
            bad.append(('ClosureSigmaIsMeanDiameter', {'expected': mean, 'observed': cs}))
        with np.errstate(all='ignore'):
            u = np.asarray(p.calculate(np.array(self.r)), dtype=float)
        if not same_values(u, obs['_closure_potential']):
            bad.append(('WiredPotentialIsCalculate', {'kind': w['kind']}))
        obs['_bad_wire'] = bad
        return obs

    def calculate(self, w, l):
        p = w['pot']
        r = self.r                      # the same array object on every call (Domain.r)
        r0 = r.tobytes()
        try:
            with np.errstate(all='ignore'):
                v1 = p.calculate(r)
        except AssertionError:
            return {'raises': 'AssertionError'}
        v1 = np.array(v1, dtype=float)
        with np.errstate(all='ignore'):
            v2 = np.array(p.calculate(r), dtype=float)
            perm = np.arange(len(r))[::-1]
            v3 = np.array(p.calculate(np.array(r[perm])), dtype=float)
            v4 = np.array([np.asarray(p.calculate(np.array([x])), dtype=float)[0] for x in r])
            # another grid in between (the Domain of another System in the same process): same end points, other spacing; and a
            # grid of the same length and end points that is NOT the same grid - then the first grid again
            r2 = np.linspace(float(r[0]), float(r[-1]), 2 * len(r) - 1)
            va = np.array(p.calculate(np.array(r2)), dtype=float)
            r3 = np.array(r, dtype=float)
            r3[1:-1] = r3[1:-1] + 0.25 * (r3[1] - r3[0])
            p.calculate(r3)
            v5 = np.array(p.calculate(r), dtype=float)
        shared = (r2[::2] == np.asarray(r, dtype=float))          # points the two grids have in common bit for bit (a last-bit
        #                                                           difference at the contact distance legitimately changes branch)
        alt_ok = bool(np.array_equal(v1, v5, equal_nan=True)) and same_values(va[::2][shared], v1[shared], rtol=1e-9)
        obs = {'raises': 'none', '_v': v1, '_repeat': bool(np.array_equal(v1, v2, equal_nan=True)) and alt_ok,
               '_r_untouched': r.tobytes() == r0, '_perm': same_values(v1[perm], v3),
               '_single': same_values(v1, v4), '_kind': w['kind']}
        if l.get('raises') == 'none':
            # value comparison needs the object's own floats (sigma, rcut), so it is done here and carried in obs
            rc = getattr(p, 'rcut', None) if w['kind'] == 'LennardJones' else None
            bad = judge_values(w['kind'], self.c, self.r, float(p.sigma), rc, v1, l, self.terms)
            obs['_bad'] = sorted(bad, key=lambda x: x[0] == 'ContactIsCore.float_noise')[:3]
        return obs

    def project(self, w):
        p = w['pot']
        st = {'kind': w['kind'], 'sigma2': half_units(p.sigma, self.c)}
        if w['kind'] == 'LennardJones':
            st['rcut2'] = half_units(p.rcut, self.c)
            st['shift'] = bool(p.shift) if p.rcut is not None else None
        return {'pot': st, 'dia': w['dia']}

    def diff_state(self, want, got):
        out = []
        wp, gp = want['pot'], got['pot']
        if wp['sigma2'] != gp['sigma2']:
            out.append(('State.sigma', {'expected_half_units': wp['sigma2'], 'observed_half_units': gp['sigma2']}))
        if wp['kind'] == 'LennardJones':
            if wp['rcut2'] != gp['rcut2']:
                out.append(('State.rcut', {'expected_half_units': wp['rcut2'], 'observed_half_units': gp['rcut2']}))
            elif wp['rcut2'] and wp['shift'] != gp['shift']:
                out.append(('State.shift', {'expected': wp['shift'], 'observed': gp['shift']}))
        return out

    def diff_obs(self, l, obs):
        out = []
        act = l['act']
        if act == 'Wire':
            if not obs['_caller_sigma_kept']:
                out.append(('SigmaDefault.caller_object_written', {}))
            return out + obs.get('_bad_wire', [])
        if act != 'Calculate':
            return out
        if obs['raises'] != l['raises']:
            return [('CalculateRaises', {'expected': l['raises'], 'observed': obs['raises']})]
        if l['raises'] != 'none':
            return out
        for k, clause in (('_repeat', 'Repeatable'), ('_r_untouched', 'DoesNotModifyR'), ('_perm', 'Elementwise.permutation'),
                          ('_single', 'Elementwise.single_point')):
            if not obs[k]:
                out.append((clause, {'kind': obs['_kind']}))
        return out + obs.get('_bad', [])



def validate_evaluator(ctx, edges, terms):
    """harness/termeval.py against TLC's exact reduction on every (state, point) TLC could reduce"""
    n = bad = 0
    for e in edges:
        l = e['l']
        if l['act'] != 'Calculate' or l['raises'] != 'none':
            continue
        p = e['from']['pot']
        for i, (b, ex) in enumerate(zip(l['branch'], l['exact'])):
            if not termeval.is_def(ex):
                continue
            env = {'r': [2 * (i + 1), 1], 'sigma': [p['sigma2'], 1], 'rcut': [p['rcut2'] or 1, 1], 'eps': [3, 2], 'alpha': [2, 1],
                   'high': [1000000, 1]}
            t = terms[p['kind']]['full' if b == 'full_atcut' else b]
            msg = termeval.check_against_exact(t, env, ex)
            n += 1
            if msg:
                bad += 1
                raise MachineryError('term evaluator disagrees with TLC on %s/%s point %d: %s' % (p['kind'], b, i + 1, msg))
    return n


def exact_replay(ctx, edges, terms):
    """the exact instance itself on the real classes: r = 2i, sigma = sigma2 (all exact floats)"""
    class C(object):
        eps, alpha, high, dr = 1.5, 2.0, 1e6, 2.0
    n = 0
    seen = set()
    for e in edges:
        l = e['l']
        if l['act'] != 'Calculate' or l['raises'] != 'none':
            continue
        p = e['from']['pot']
        key = (p['kind'], p['sigma2'], p['rcut2'], p['shift'])
        if key in seen:
            continue
        seen.add(key)
        U = make_pot(p['kind'], C)
        U.sigma = float(p['sigma2'])
        if p['kind'] == 'LennardJones':
            U.rcut = float(p['rcut2']) if p['rcut2'] else None
            U.shift = p['shift']
        for dtype in (float, int):      # a float grid and an integer-valued grid (Domain(dr=2))
            r = np.array(2 * np.arange(1, len(l['branch']) + 1), dtype=dtype)
            with np.errstate(all='ignore'):
                got = np.asarray(U.calculate(np.array(r)), dtype=float)
            for i, (b, ex) in enumerate(zip(l['branch'], l['exact'])):
                if not termeval.is_def(ex) or b == 'full_atcut':
                    continue
                want = ex[0] / ex[1]
                n += 1
                ctx.count(('exact', key, i, dtype.__name__))
                if abs(got[i] - want) > 1e-12 * max(abs(want), 1e-3):
                    ctx.violation('PotDefinition.exact', {'family': 'exact', 'action': 'Calculate', 'kind': p['kind'], 'state': p, 'point': i + 1,
                                                          'branch': b, 'expected': ex, 'observed': float(got[i]), 'grid_dtype': dtype.__name__,
                                                          'detail': 'value differs from the exact rational TLC computed'})
                    break
    return n


def concretisations(thorough):
    cs = [Concretisation('dyadic', '0.5', 1.5, 2.0, 1e6, 'literal'),
          Concretisation('tenth', '0.1', 0.75, 0.5, 1e6, 'literal'),
          Concretisation('tenth.computed', '0.1', -0.5, 1.25, 1e6, 'computed'),
          Concretisation('0.05', '0.05', 2.0, 0.3, 1e3, 'literal'),
          Concretisation('int.dr', '1', 0.6, 0.9, 1e6, 'literal', int_dr=True),
          # parameters typed as integers (Python int / numpy integer): the value, not the type, defines the potential
          Concretisation('int.params', '0.5', 2, 3, 1000000, 'literal'),
          Concretisation('npint.params', '0.25', np.int64(1), np.int64(2), np.int64(1000000), 'computed'),
          # a true hard core: the overlap value is infinite
          Concretisation('inf.core', '0.5', 0.8, 1.5, float('inf'), 'literal')]
    if thorough:
        cs += [Concretisation('0.075', '0.075', 1.0, 1.0, 1e6, 'literal'),
               Concretisation('0.02', '0.02', 0.25, 0.1, 1e6, 'computed'),
               Concretisation('quarter', '0.25', -1.0, 4.0, 1e6, 'computed'),
               Concretisation('0.3', '0.3', 3.0, 0.7, 1e5, 'literal')]
    return cs


def run(ctx):
    thorough = ctx.tier == 'thorough'
    L = 12 if thorough else 8
    ctx.notes['rule'] = ('potential-object states (kind x sigma x cut x shift x diameters) x public calls exported by TLC; distinct = '
                         '(state, call) pairs executed on the real classes per concretisation (dr, parameters, sigma style); every '
                         'Calculate compares all grid points with the TLC-selected branch term')
    ctx.trusted += ['TLC 1.8.0', 'harness/termeval.py (validated against TLC REval in this run)', 'harness/graph.py']
    ctx.assumptions += ['a grid point within 1e-6 (System.check tolerance) of sigma is contact = core',
                        'value of an UNSHIFTED Lennard-Jones potential exactly at r = rcut not judged',
                        'comparison 1e-10 of the cancellation scale |eps|((s/r)^12 + (s/r)^6 + 1); overlap value and zeros bitwise']
    res = run_tlc('MC_ClosurePotential', cfg(L), ctx.tmp, seed=ctx.seed)
    require_clean(res, 'ClosurePotential potential machine')
    ctx.add_tlc('potential machine L=%d' % L, res, exhaustive=True)
    info = res.records['INFO'][0]
    terms = info['pot']
    edges = res.records['EDGE']
    g = Graph(edges, res.records.get('INIT'))
    nval = validate_evaluator(ctx, edges, terms)
    nex = exact_replay(ctx, edges, terms)
    ctx.stage('exact', evaluator_points_validated=nval, real_class_points_exact=nex)
    ctx.sample({'edge': [e for e in edges if e['l']['act'] == 'Calculate' and e['l']['raises'] == 'none'][7]})
    for c in concretisations(thorough):
        ad = PotAdapter(L, c, terms, ctx)
        w = Walker(ctx, g, ad, 'replay.potential.%s' % c.name)
        ne = w.cover_edges()      # the adapter itself evaluates before every parameter change (step)
        npaths, complete = w.all_paths(3, budget=400000 if thorough else 60000)
        nr = w.random_walks(400 if thorough else 60, 8, ctx.seed)
        ctx.stage('replay.potential', concretisation=c.describe(), graph_states=len(g.state), graph_edges=g.n_edges,
                  edges_replayed=ne, paths=npaths, paths_complete=complete, random_walks=nr, real_calls=w.steps)
