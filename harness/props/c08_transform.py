"""C08 - to_fourier/to_real approximate the continuous 3-D radial Fourier transform.

The discrete pair is DEFINED in spec/Domain.tla (Riemann sums of the radial pair, prefactors
Fwd = 4 pi, Bwd = 1/(2 pi^2) as monomials; TLC checks ForwardIs4Pi, BackwardIs1Over2Pi2,
RoundTripIsIdentity symbolically).  Binding: on every Domain state TLC enumerates the real
coefficient arrays equal C2*r*dr and C3*k*dk and the real transforms equal the specified dense
matrices ABSOLUTELY (not only their product).  Model validation: the specified formula (and
the code, which equals it) converges at first order to the closed-form transforms of the
analytic families under refinement dr -> dr/2 at fixed r_max."""
import math

import numpy as np

from harness.core import MachineryError
from harness.graph import Walker
from harness import domain_common as dc
from harness.refmath import mono, dense_transforms


def families():
    fams = []
    for a in (0.5, 1.0, 2.0):
        fams.append(('gaussian a=%g' % a,
                     lambda r, a=a: np.exp(-a * r * r),
                     lambda k, a=a: (math.pi / a) ** 1.5 * np.exp(-k * k / (4 * a)),
                     (math.pi / a) ** 1.5))
    for a in (0.7,):
        # r^2 exp(-a r^2): changes sign in Fourier space, vanishes at the origin in real space
        fams.append(('r2gaussian a=%g' % a,
                     lambda r, a=a: r * r * np.exp(-a * r * r),
                     lambda k, a=a: (math.pi / a) ** 1.5 * (1.5 / a - k * k / (4 * a * a)) * np.exp(-k * k / (4 * a)),
                     (math.pi / a) ** 1.5 * 1.5 / a))
    for kap in (1.0, 2.0):
        fams.append(('yukawa kappa=%g' % kap,
                     lambda r, q=kap: np.exp(-q * r) / r,
                     lambda k, q=kap: 4 * math.pi / (k * k + q * q),
                     4 * math.pi / (kap * kap)))
        fams.append(('exponential kappa=%g' % kap,
                     lambda r, q=kap: np.exp(-q * r),
                     lambda k, q=kap: 8 * math.pi * q / (k * k + q * q) ** 2,
                     8 * math.pi / kap ** 3))
    for R in (1.0, 2.5):
        fams.append(('sphere R=%g' % R,
                     lambda r, R=R: (r <= R).astype(float),
                     lambda k, R=R: 4 * math.pi * (np.sin(k * R) - k * R * np.cos(k * R)) / k ** 3,
                     4 * math.pi * R ** 3 / 3))
    return fams


def convergence(ctx, info, thorough):
    """error of the SPECIFIED discrete transform and of pyPRISM's at fixed k / fixed r under
    refinement; first order means the error roughly halves per halving of dr"""
    fwd, bwd = mono(info['fwd']), mono(info['bwd'])
    rows = []
    # two refinement ladders at fixed r_max: powers of two, and lengths 131 * 2^m (131 is prime, so
    # these lengths are not FFT-friendly)
    ladders = [[128, 256, 512, 1024] + ([2048] if thorough else []), [131, 262, 524, 1048]]
    if thorough:        # other refinement ratios and lengths with mixed prime factors
        ladders += [[100, 200, 400, 800, 1600], [150, 300, 600, 1200], [96, 192, 384, 768, 1536]]
    for ns in ladders:
        for fam in families():
            name = fam[0]
            if ns[0] == 131 and not thorough and not name.startswith(('gaussian a=1', 'exponential kappa=1', 'sphere R=2.5')):
                continue
            rows.append(ladder(ctx, fam, ns, fwd, bwd))
    return rows


def ladder(ctx, fam, ns, fwd, bwd):
    from pyPRISM.core.Domain import Domain
    name, f, F, vol = fam
    rmax = 25.6
    smooth = not name.startswith('sphere')
    errs_spec_f, errs_code_f, errs_code_b, errs_low = [], [], [], []
    for n in ns:
        dr = rmax / n
        dk = math.pi / rmax
        d = Domain(n, dr=dr)
        r = (np.arange(n) + 1) * dr
        k = (np.arange(n) + 1) * dk
        fr, Fk = f(r), F(k)
        jj = np.arange(0, 24)                       # fixed k_j = (j+1) pi / rmax for every n
        code_f = d.to_fourier(fr)
        if n <= 1100:
            MF, MR = dense_transforms(n, dr, dk, fwd, bwd)
            spec_f = MF @ fr
            errs_spec_f.append(float(np.max(np.abs(spec_f[jj] - Fk[jj]))))
            if float(np.max(np.abs(spec_f - code_f))) > 1e-10 * float(np.max(np.abs(spec_f))):
                ctx.violation('ForwardTransform', {'family': 'convergence', 'action': 'to_fourier', 'case': name, 'n': n,
                                                   'detail': 'code differs from the specified discrete transform'})
        # the statement holds for functions of EVERY magnitude: A f is approximated as well as f, relative to its own size
        for A in (1e-9, 1e-13, 1e7):
            small = np.asarray(d.to_fourier(A * fr), dtype=float)
            if float(np.max(np.abs(small - A * code_f))) > 1e-10 * A * float(np.max(np.abs(code_f))):
                ctx.violation('ForwardTransform.amplitude', {'family': 'convergence', 'action': 'to_fourier', 'case': name, 'n': n, 'amplitude': A,
                                                             'detail': 'to_fourier(A f) differs from A to_fourier(f): the error relative to the size of the function does not vanish under refinement'})
                break
            if smooth:
                back = np.asarray(d.to_real(A * Fk), dtype=float)
                ref = np.asarray(d.to_real(Fk), dtype=float)
                if float(np.max(np.abs(back - A * ref))) > 1e-10 * A * float(np.max(np.abs(ref))):
                    ctx.violation('BackwardTransform.amplitude', {'family': 'convergence', 'action': 'to_real', 'case': name, 'n': n, 'amplitude': A,
                                                                  'detail': 'to_real(A F) differs from A to_real(F)'})
                    break
        errs_code_f.append(float(np.max(np.abs(code_f[jj] - Fk[jj]))))
        errs_low.append(abs(float(code_f[0]) - float(Fk[0])))
        if smooth:
            code_b = d.to_real(Fk)
            # fixed r: the points r_max * m / ns[0], m = 1..20, exist on every grid of the ladder
            ii = (np.arange(1, 21) * (n // ns[0])) - 1
            errs_code_b.append(float(np.max(np.abs(code_b[ii] - fr[ii]))))
        ctx.count(('conv', name, n))
    scale = abs(vol)
    rec = {'family': name, 'n': list(ns), 'err_forward_code': errs_code_f, 'err_forward_spec': errs_spec_f,
           'err_backward_code': errs_code_b, 'err_lowest_k': errs_low, 'scale': scale}

    def judge(errs, what, limit):
        for a, b in zip(errs, errs[1:]):
            if a < 1e-9 * scale:        # converged to rounding: nothing to judge
                continue
            if b > limit * a:
                ctx.violation('FirstOrderConvergence', {'family': 'convergence', 'action': what, 'case': name, 'n': list(ns),
                                                        'errors': errs, 'detail': 'error does not decrease under refinement (ratio > %g)' % limit})
                return
    if smooth:
        judge(errs_code_f, 'to_fourier', 0.75)
        judge(errs_spec_f, 'spec.forward', 0.75)
        if 'yukawa' not in name:
            judge(errs_code_b, 'to_real', 0.75)
        # bounded by a constant times dr: err/dr must not grow along the ladder (it converges to the
        # first-order coefficient from below on the pre-asymptotic coarse grids: slack 1.5)
        C = errs_code_f[0] / (rmax / ns[0])
        for n, e in zip(ns, errs_code_f):
            if e > 1.5 * C * (rmax / n) + 1e-9 * scale:
                ctx.violation('ErrorBoundedByDr', {'family': 'convergence', 'action': 'to_fourier', 'case': name, 'n': n,
                                                   'errors': errs_code_f, 'detail': 'error/dr at fixed k grows under refinement'})
                break
        # k -> 0: the lowest-k value tends to the closed form at that k (-> the volume integral)
        judge(errs_low, 'to_fourier(k_min)', 0.75)
    else:
        # a discontinuous function (sphere of radius R): the Riemann sum misplaces at most the one cell that holds the
        # jump, so |error| <= 4 pi (R + dr)^2 dr (+ the smooth O(dr) part, slack 1.5); the error is NOT monotone under
        # halving - it depends on where the jump falls inside its cell - so only the envelope and the overall
        # decrease (finest vs coarsest level) are judged
        Rs = float(name.split('=')[1])
        for errs, what in ((errs_code_f, 'to_fourier'), (errs_spec_f, 'spec.forward'), (errs_low, 'to_fourier(k_min)')):
            for n, e in zip(ns, errs):
                dr = rmax / n
                if e > 1.5 * 4 * math.pi * (Rs + dr) ** 2 * dr + 1e-9 * scale:
                    ctx.violation('ErrorBoundedByDr', {'family': 'convergence', 'action': what, 'case': name, 'n': n, 'errors': errs,
                                                       'bound': 1.5 * 4 * math.pi * (Rs + dr) ** 2 * dr,
                                                       'detail': 'error exceeds the one-cell bound 4 pi (R+dr)^2 dr of a discontinuous integrand'})
                    break
    return rec


def run(ctx):
    thorough = ctx.tier == 'thorough'
    ctx.notes['rule'] = ('Domain states enumerated by TLC x scales: coefficient arrays and both transforms compared ABSOLUTELY with the '
                         'monomials / dense matrices defined in the specification; plus a refinement study (analytic families x grid sizes), '
                         'distinct = (state, call, scale) edges and (family, n) refinement points')
    ctx.trusted += ['TLC 1.8.0', 'harness/refmath.py dense_transforms', 'closed-form transforms of Gaussian / Yukawa / exponential / sphere']
    ctx.assumptions += ['convergence itself is real analysis and is validated numerically on the families (model validation), not by TLC']
    lens = [8, 22] if not thorough else [8, 22, 100, 1000, 1031]
    res, g, info = dc.model_and_graph(ctx, 'Domain (prefactors)', lens, 2 if not thorough else 3)
    ctx.sample({'info_exported_by_TLC': info})
    for s in ([1.0, 0.37] if not thorough else [1.0, 0.37, 2.0]):
        w = Walker(ctx, g, dc.DomainAdapter(info, s, ctx.seed, heavy=True, which=('coeffs', 'transform')),
                   'replay.prefactors.scale%g' % s)
        ne = w.cover_edges(stutter=True)
        ctx.traces += ne
        # every PATH as well: a Domain born from dk and one born from dr are the same abstract state (so one of them only is
        # continued by the edge pass), but not necessarily the same object inside
        npaths, complete = w.all_paths(2 if not thorough else 3, budget=None if not thorough else 4000)
        ctx.stage('replay.prefactors', scale=s, edges_replayed=ne, graph_edges=g.n_edges, paths=npaths, transform_batteries=w.a.batteries)
    if mono(info['fwd']) != 4 * math.pi or abs(mono(info['bwd']) - 1 / (2 * math.pi ** 2)) > 1e-18:
        raise MachineryError('exported prefactors are not 4 pi and 1/(2 pi^2): %r' % info)
    rows = convergence(ctx, info, thorough)
    ctx.notes['refinement_study'] = rows
    ctx.sample({'refinement': rows[0]})
