"""C07 - transforms are exact mutual inverses on every reachable Domain.

spec/Domain.tla part 1 (constructor + setters; Conjugate, GridSize, NotStale, FreshEquivalent,
RoundTripIsIdentity) and part 2 (MatrixArray transform guard / round-trip word algebra).  Every
setter history TLC enumerates is replayed on real Domain objects for several concretisations;
on every reached Domain the transform statements are decided on a basis against the dense
matrices of the transform pair defined in the specification."""
from harness.core import MachineryError
from harness.graph import Walker
from harness import domain_common as dc
from harness import tracecheck


def run(ctx):
    thorough = ctx.tier == 'thorough'
    ctx.notes['rule'] = ('TLC enumerates every constructor/setter history up to MaxSteps over the listed lengths and spacings; '
                         'each (abstract domain state, call) edge is replayed for every scale; distinct = distinct (state, call, scale); '
                         'on each reached domain the transform pair is compared with the specified dense matrices on basis vectors')
    ctx.trusted += ['TLC 1.8.0', 'harness/refmath.py dense_transforms (written from the formula in spec/Domain.tla)', 'numpy']
    ctx.assumptions += ['round-trip bound 1e-13*max(n,16)^2 (condition of the discrete map), other comparisons 1e-11..1e-13 relative']
    lens = [2, 7, 64, 100] if not thorough else [2, 3, 7, 22, 64, 100, 1000, 1031]
    # (lengths with prime factors 7, 11, 1031: not 5-smooth, so any FFT-length padding shows)
    steps = 2 if not thorough else 3
    res, g, info = dc.model_and_graph(ctx, 'Domain setters', lens, steps, workers=1)
    edges = res.records['EDGE']
    ctx.sample({'edge': edges[len(edges) // 2]})
    scales = [1.0, 0.37] if not thorough else [1.0, 0.37, 2.0, 1.0 / 3.0]
    for s in scales:
        fam = 'replay.Domain.scale%g' % s
        # every edge once with the full transform battery on the reached domain
        w = Walker(ctx, g, dc.DomainAdapter(info, s, ctx.seed, heavy=True), fam)
        ne = w.cover_edges(stutter=True)
        heavy_batteries = w.a.batteries
        # all paths / random walks with the attribute checks only
        w2 = Walker(ctx, g, dc.DomainAdapter(info, s, ctx.seed, heavy=False), fam)
        npaths, complete = w2.all_paths(steps + 1, budget=200000)
        from harness.graph import blind_walks
        blind_walks(w, 400 if thorough else 60, steps + 2, ctx.seed)        # several configuration steps, nothing read or transformed in between
        ctx.stage(fam, graph_states=len(g.state), graph_edges=g.n_edges, edges_replayed=ne,
                  transform_batteries=heavy_batteries, paths=npaths, paths_complete=complete,
                  real_calls=w.steps + w2.steps)
    # part 2: transform guard machine
    res2, g2, info2 = dc.transform_graph(ctx, 'MatrixArray transforms')
    for (n, dr, rank) in ([(64, 0.1, 2), (100, 0.05, 3)] if not thorough else
                          [(64, 0.1, 1), (64, 0.1, 2), (100, 0.05, 3), (37, 0.2, 4), (1024, 0.025, 2)]):
        w = Walker(ctx, g2, dc.TransformAdapter(info2, n, dr, rank, ctx.seed), 'replay.transforms.n%d.rank%d' % (n, rank))
        ne = w.cover_edges(stutter=True)
        npaths, _ = w.all_paths(4)
        ctx.stage('replay.transforms', n=n, rank=rank, edges_replayed=ne, paths=npaths)
    ctx.sample({'edge': res2.records['EDGE'][0]})
    tracecheck.domain_traces(ctx)
