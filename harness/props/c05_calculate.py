"""C05 - every calculate.* quantity equals its definition and the cross-identities hold.

spec/Calculate.tla: the seven functions as definitions in exact rational arithmetic on
hand-populated (deliberately not self-consistent) instances of rank 2-4; TLC evaluates them and
checks SymmetricOutputs, SpinodalIsBlockDeterminant, ExtrapolationIsQuadratic, ChiEqualVolumes.
Every exported evaluation is replayed on a real PRISM object populated with the same numbers,
for every combination of initial spaces of the three stored arrays; plus the self-consistency
identity S = (I - Omega C)^-1 Omega on really solved objects."""
import itertools
import math
import warnings

import numpy as np

from harness.core import run_tlc, require_clean, MachineryError
from harness.refmath import same_values
from harness.refmath import dense_transforms
from harness import systems

L = 4
DR = 0.5
FWD, BWD = 4 * math.pi, 1.0 / (2 * math.pi ** 2)


def cfg(rank, seeds, edge=True):
    return '\n'.join([
        'CONSTANTS Rk = %d' % rank, 'Seeds = {%s}' % ', '.join(str(s) for s in seeds),
        'INIT MCInit', 'NEXT Next', 'VIEW View', 'CHECK_DEADLOCK FALSE',
        'INVARIANTS SymmetricOutputs SpinodalIsBlockDeterminant ExtrapolationIsQuadratic ChiEqualVolumes',
        'ACTION_CONSTRAINT %s' % ('Edge' if edge else 'NoEdge'), ''])


def q(x):
    return x[0] / x[1]


def arr3(a):
    return np.array([[[q(c) for c in row] for row in mat] for mat in a], dtype=float)


def make_prism(inst):
    """a real PRISM object whose System carries the instance's densities, diameters and kT"""
    import pyPRISM
    r = len(inst['rho'])
    T = ['z0', 't1', 'a2', 'm3'][:r]          # not in alphabetical order
    s = pyPRISM.System(T, kT=q(inst['kT']))
    s.domain = pyPRISM.Domain(length=L, dr=DR)
    for i, t in enumerate(T):
        s.density[t] = q(inst['rho'][i])
        s.diameter[t] = float(inst['d'][i])
    s.potential[T, T] = pyPRISM.potential.HardSphere()
    s.closure[T, T] = pyPRISM.closure.PercusYevick()
    s.omega[T, T] = pyPRISM.omega.NoIntra()
    for t in T:
        s.omega[t, t] = pyPRISM.omega.SingleSite()
    with warnings.catch_warnings():
        warnings.simplefilter('ignore')
        p = s.createPRISM()
    return p, T


def populate(p, T, inst, fn, spaces, MF, MR):
    """overwrite the three stored arrays with the instance, each in the requested initial space"""
    from pyPRISM.core.MatrixArray import MatrixArray
    from pyPRISM.core.Space import Space
    r = len(T)

    def put(attr, data, native, want):
        if native != want:
            M = MF if want == 'F' else MR
            data = np.einsum('xn,nab->xab', M, data)
        m = MatrixArray(length=L, rank=r, data=np.array(data), space=Space.Real if want == 'R' else Space.Fourier, types=list(T))
        setattr(p, attr, m)
    if fn in ('pair_correlation', 'pmf'):
        put('totalCorr', arr3(inst['Hr']), 'R', spaces['H'])
    else:
        put('totalCorr', arr3(inst['Hk']), 'F', spaces['H'])
    put('directCorr', arr3(inst['Ck']), 'F', spaces['C'])
    put('omega', arr3(inst['Wk']), 'F', spaces['W'])


def call(p, fn, arg):
    import pyPRISM
    f = getattr(pyPRISM.calculate, fn)
    if arg == '-':
        return f(p)
    k, v = arg.split('=')
    if v in ('True', 'False'):
        v = v == 'True'
    return f(p, **{k: v})


def relerr(a, b):
    a, b = np.asarray(a, dtype=float), np.asarray(b, dtype=float)
    if a.shape != b.shape:
        return float('inf')
    return float(np.max(np.abs(a - b))) / max(float(np.max(np.abs(b))), 1e-12)


def judge(ctx, inst, label, spaces, ret, T, MF, MR):
    """list of (clause, detail)"""
    from pyPRISM.core.MatrixArray import MatrixArray
    from pyPRISM.core.PairTable import PairTable
    fn, arg, out = label['fn'], label['arg'], label['out']
    bad = []
    r = len(T)
    tol = 1e-9
    kT = q(inst['kT'])
    if fn in ('pair_correlation', 'pmf', 'structure_factor', 'solvation_potential'):
        if not isinstance(ret, MatrixArray):
            return [('ReturnType', {'observed': type(ret).__name__})]
        exp = arr3(out)
        if fn == 'pmf':
            exp = -kT * np.log(exp)
        elif fn == 'solvation_potential':
            if arg == 'closure=PY':
                with np.errstate(invalid='ignore', divide='ignore'):
                    exp = -kT * np.log(1.0 + exp)
            exp = np.einsum('xn,nab->xab', MR, exp)
        got = np.asarray(ret.data, dtype=float)
        mask = np.isfinite(exp)
        if got.shape != exp.shape:
            return [('Definition.' + fn, {'what': 'shape', 'observed': list(got.shape)})]
        if fn == 'solvation_potential' and arg == 'closure=PY':
            # a non-positive 1 + CSC at one k makes the whole back-transform undefined
            if not mask.all():
                ctx.skip('solvation_potential(PY) with 1 + CSC <= 0 at some k (not judged)')
                return []
            ctx.notes['py_solvation_judged'] = ctx.notes.get('py_solvation_judged', 0) + 1
        if not np.all(np.isfinite(got[mask])):
            bad.append(('Definition.' + fn, {'what': 'non-finite value'}))
        else:
            e = float(np.max(np.abs(got[mask] - exp[mask]))) / max(float(np.max(np.abs(exp[mask]))), 1e-12)
            if e > tol:
                bad.append(('Definition.' + fn, {'rel_err': e, 'what': 'value differs from the definition'}))
        if not np.allclose(got, np.transpose(got, (0, 2, 1)), rtol=1e-10, atol=1e-12, equal_nan=True):
            bad.append(('SymmetricInTypeLabels', {'fn': fn}))
        return bad
    if not isinstance(ret, PairTable):
        return [('ReturnType', {'observed': type(ret).__name__})]
    for i, a in enumerate(T):
        for j, b in enumerate(T):
            e = out[i][j]
            if fn == 'second_virial':
                exp = q(e)
                for (x, y) in ((a, b), (b, a)):
                    g = ret[x, y]
                    if g is None or abs(float(g) - exp) > tol * max(1.0, abs(exp)):
                        bad.append(('Definition.second_virial', {'pair': [x, y], 'expected': exp, 'observed': None if g is None else float(g), 'arg': arg}))
                continue
            if i >= j:
                continue
            g1, g2 = ret[a, b], ret[b, a]
            if g1 is None or g2 is None or not same_values(np.asarray(g1, dtype=float), np.asarray(g2, dtype=float)):
                bad.append(('PairTableSymmetric', {'pair': [a, b], 'fn': fn}))
                continue
            if fn == 'spinodal_condition':
                lim = q(label['limit'][i][j])
                exp = q(e)
                g = float(g1)
                ok = abs(g - exp) <= tol * max(1.0, abs(exp))
                if arg == 'extrapolate=False':
                    # the statement defines the quantity as the k -> 0 limit; with extrapolate=False both
                    # readings (the extrapolated limit, the value at the lowest k) are accepted
                    ok = ok or abs(g - lim) <= tol * max(1.0, abs(lim))
                if not ok:
                    bad.append(('Definition.spinodal_condition', {'pair': [a, b], 'expected': exp, 'limit': lim, 'observed': g, 'arg': arg}))
            elif fn == 'chi':
                exp = np.array([q(c) for c in e])
                g = np.atleast_1d(np.asarray(g1, dtype=float))
                if g.shape != exp.shape:
                    bad.append(('Definition.chi', {'pair': [a, b], 'what': 'shape', 'arg': arg}))
                    continue
                if inst['d'][i] == inst['d'][j]:
                    if relerr(g, exp) > tol:
                        bad.append(('Definition.chi.equal_volumes', {'pair': [a, b], 'expected': exp.tolist(), 'observed': g.tolist(), 'arg': arg}))
                elif arg == 'extrapolate=False':
                    # unequal volumes: linear in the direct correlations with weights 1/R : R : -2, positive prefactor
                    wts = np.array([q(c) for c in label['weights'][i][j]])
                    nz = np.abs(wts) > 1e-12
                    if nz.any():
                        lam = float(np.dot(g[nz], wts[nz]) / np.dot(wts[nz], wts[nz]))
                        if lam <= 0 or relerr(g, lam * wts) > 1e-8:
                            bad.append(('Definition.chi.weights', {'pair': [a, b], 'observed': g.tolist(), 'weights': wts.tolist(), 'lambda': lam}))
                else:
                    # unequal volumes, extrapolated: the k-independent prefactor lambda is taken from the curve of the same
                    # instance (a fresh object), the value must be the quadratic through lambda * weights at the three lowest k
                    wts = np.array([q(c) for c in label['weights'][i][j]])
                    p2, T2 = make_prism(inst)
                    populate(p2, T2, inst, 'chi', {'H': 'F', 'C': 'F', 'W': 'F'}, MF, MR)
                    curve = np.atleast_1d(np.asarray(call(p2, 'chi', 'extrapolate=False')[a, b], dtype=float))
                    nz = np.abs(wts) > 1e-12
                    if nz.any() and curve.shape == wts.shape:
                        lam = float(np.dot(curve[nz], wts[nz]) / np.dot(wts[nz], wts[nz]))
                        want = lam * (3 * wts[0] - 3 * wts[1] + wts[2])
                        if abs(float(g[0]) - want) > 1e-8 * max(1.0, abs(want), float(np.max(np.abs(lam * wts)))):
                            bad.append(('Definition.chi.extrapolated', {'pair': [a, b], 'observed': float(g[0]), 'expected': want, 'lambda': lam}))
    return bad


def self_consistency(ctx):
    """S(k) unnormalised = (I - Omega C)^-1 Omega on really solved objects"""
    import pyPRISM
    for name in ('SYS2', 'SYS3', 'SYS2D'):
        s, p, res = systems.solve(getattr(systems, name))
        if not res.success:
            ctx.skip('reference system did not converge')
            continue
        S = pyPRISM.calculate.structure_factor(p, normalize=False)
        if p.directCorr.space.name != 'Fourier':
            p.sys.domain.MatrixArray_to_fourier(p.directCorr)
        W, C = np.array(p.omega.data), np.array(p.directCorr.data)
        I = np.eye(W.shape[1])
        exp = np.array([np.linalg.solve(I - W[l].dot(C[l]), W[l]) for l in range(W.shape[0])])
        e = relerr(S.data, exp)
        ctx.count(('sk', name))
        # accuracy of the converged solve: the residual the solver reports, amplified by cond(I - Omega C)
        bound = 1e-4
        if e > bound:
            ctx.violation('SkIdentity', {'family': 'solved', 'action': 'structure_factor', 'case': name, 'rel_err': e,
                                         'detail': 'unnormalised S(k) differs from (I - Omega C)^-1 Omega on a solved object'})
        ctx.stage('solved.SkIdentity', system=name, rel_err=e, bound=bound)


def run(ctx):
    thorough = ctx.tier == 'thorough'
    ctx.notes['rule'] = ('instances (rank x seed) x 12 call variants evaluated exactly by TLC; each replayed on a real PRISM for all 8 '
                         'combinations of initial spaces of the stored arrays; distinct = (rank, seed, variant, spaces)')
    ctx.trusted += ['TLC 1.8.0', 'harness/refmath.py dense_transforms for moving instance arrays between spaces', 'numpy log']
    ctx.assumptions += ['comparison 1e-9 relative; solvation_potential(PY) judged where 1 + CSC > 0 at every k',
                        'chi for unequal site volumes judged up to a positive k-independent prefactor (weights 1/R : R : -2)',
                        'spinodal_condition(extrapolate=False): extrapolated limit or lowest-k value both accepted']
    dk = math.pi / (DR * L)
    MF, MR = dense_transforms(L, DR, dk, FWD, BWD)
    plans = [(2, [1, 2, 3, 101, 102]), (3, [1, 2, 3, 101, 102]), (4, [1, 2, 101])] if not thorough else [(2, list(range(1, 81)) + list(range(101, 141))), (3, list(range(1, 61)) + list(range(101, 133))), (4, list(range(1, 33)) + list(range(101, 117)))]
    for rank, seeds in plans:
        res = run_tlc('MC_Calculate', cfg(rank, list(seeds)), ctx.tmp, seed=ctx.seed)
        require_clean(res, 'Calculate rank %d' % rank)
        ctx.add_tlc('Calculate rank %d' % rank, res, exhaustive=True)
        insts = {i['inst']['seed']: i['inst'] for i in res.records['INIT']}
        n = 0
        failed = set()
        for e in res.records['EDGE']:
            inst = insts[e['from']['seed']]
            label = e['l']
            used = {'pair_correlation': 'H', 'pmf': 'H', 'structure_factor': 'HW', 'second_virial': 'H', 'chi': 'C',
                    'spinodal_condition': 'CW', 'solvation_potential': 'HCW'}[label['fn']]
            for combo in itertools.product('RF', repeat=3):
                spaces = dict(zip('HCW', combo))
                # the arrays a function does not use stay in their native space (fewer duplicates)
                if any(spaces[x] != ('R' if (x == 'H' and label['fn'] in ('pair_correlation', 'pmf')) else 'F') for x in 'HCW' if x not in used):
                    continue
                p, T = make_prism(inst)
                populate(p, T, inst, label['fn'], spaces, MF, MR)
                ctx.count(('calc', rank, inst['seed'], label['fn'], label['arg'], ''.join(combo)))
                n += 1
                try:
                    with warnings.catch_warnings():
                        warnings.simplefilter('ignore')
                        ret = call(p, label['fn'], label['arg'])
                    bad = judge(ctx, inst, label, spaces, ret, T, MF, MR)
                except Exception as ex:
                    bad = [('NoException', {'observed': '%s: %s' % (type(ex).__name__, ex)})]
                for clause, detail in bad:
                    k = (label['fn'], clause)
                    if k in failed:
                        continue
                    failed.add(k)
                    rec = {'family': 'replay.Calculate', 'action': label['fn'], 'arg': label['arg'], 'rank': rank,
                           'seed': inst['seed'], 'initial_spaces': spaces, 'detail': clause, 'instance': inst}
                    rec.update(detail)
                    ctx.violation(clause, rec)
        ctx.traces += n
        ctx.stage('replay.Calculate', rank=rank, seeds=list(seeds), evaluations=n)
        # two evaluations on ONE object: the specification's Eval leaves the instance unchanged, so the second
        # result is the same definition of the same stored arrays whatever was evaluated first
        m = 0
        by_inst = {}
        for e in res.records['EDGE']:
            by_inst.setdefault(e['from']['seed'], []).append(e['l'])
        for seed_, labels in sorted(by_inst.items()):
            inst = insts[seed_]
            for l1 in labels:
                for l2 in labels:
                    if (l1['fn'] in ('pair_correlation', 'pmf')) != (l2['fn'] in ('pair_correlation', 'pmf')):
                        continue        # the two groups use different stand-ins for totalCorr
                    spaces = {'H': 'R' if l2['fn'] in ('pair_correlation', 'pmf') else 'F', 'C': 'F', 'W': 'F'}
                    p, T = make_prism(inst)
                    populate(p, T, inst, l2['fn'], spaces, MF, MR)
                    m += 1
                    ctx.count(('calc2', rank, seed_, l1['fn'], l1['arg'], l2['fn'], l2['arg']))
                    try:
                        with warnings.catch_warnings():
                            warnings.simplefilter('ignore')
                            call(p, l1['fn'], l1['arg'])
                            ret = call(p, l2['fn'], l2['arg'])
                        bad = judge(ctx, inst, l2, spaces, ret, T, MF, MR)
                    except Exception as ex:
                        bad = [('NoException', {'observed': '%s: %s' % (type(ex).__name__, ex)})]
                    for clause, detail in bad:
                        k = ('seq', l1['fn'], l2['fn'], clause)
                        if k in failed:
                            continue
                        failed.add(k)
                        rec = {'family': 'replay.Calculate.sequence', 'action': l2['fn'], 'arg': l2['arg'], 'after': [l1['fn'], l1['arg']],
                               'rank': rank, 'seed': seed_, 'detail': clause, 'instance': inst}
                        rec.update(detail)
                        ctx.violation(clause, rec)
        ctx.traces += m
        ctx.stage('replay.Calculate.sequences', rank=rank, two_call_sequences=m)
        ctx.sample({'rank': rank, 'edge_label': {k: v for k, v in res.records['EDGE'][2]['l'].items() if k != 'weights'}})
    # vacuity guard: the PY solvation potential is only judged where 1 + CSC > 0 at every k; if no instance qualifies the clause
    # was never exercised and the check must not report that it held
    if not ctx.notes.get('py_solvation_judged'):
        raise MachineryError('no instance on which solvation_potential(PY) could be judged (vacuous check)')
    self_consistency(ctx)
