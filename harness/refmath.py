"""Reference mathematics written from the specification (never from pyPRISM's code).

* mono(m)            - value of a monomial <<num, den, e>> = num/den * pi^e (spec/Mono.tla)
* dense_transforms   - the discrete radial transform pair DEFINED in spec/Domain.tla as dense
                       matrices, with the prefactors TLC exported (Fwd, Bwd)
"""
import math

import numpy as np


def mono(m):
    return (m[0] / m[1]) * math.pi ** m[2]


def rat(q):
    return q[0] / q[1]


def dense_transforms(n, dr, dk, fwd, bwd):
    """MF (k <- r) and MR (r <- k) for a grid r_i = (i+1) dr, k_j = (j+1) dk, i, j = 0..n-1.

    forward  F(f)_j = Fwd * dr / k_j * SUM_i r_i f_i sin(pi (2i+1)(j+1) / 2N)
    backward R(g)_i = Bwd * dk / r_i * [SUM_{j<N-1} k_j g_j sin(pi (2i+1)(j+1) / 2N)
                                         + (-1)^i k_{N-1} g_{N-1} / 2]
    """
    i = np.arange(n)
    r = (i + 1) * dr
    k = (i + 1) * dk
    S = np.sin(np.pi * np.outer(2 * i + 1, i + 1) / (2.0 * n))      # S[i, j]
    MF = fwd * dr * (S.T * r[None, :]) / k[:, None]                  # MF[j, i]
    W = S * k[None, :]
    W[:, n - 1] = ((-1.0) ** i) * k[n - 1] / 2.0
    MR = bwd * dk * W / r[:, None]                                   # MR[i, j]
    return MF, MR


def same_values(a, b, rtol=1e-12):
    """agreement to rounding: shapes equal, non-finite entries identical, finite ones within rtol relative.  Used where a statement
    says WHICH inputs a value depends on (elementwise, order independent, repeatable through another route) - not its last bit: a
    vectorised evaluation may round differently from a one-point evaluation"""
    import numpy as np
    a, b = np.asarray(a, dtype=float), np.asarray(b, dtype=float)
    if a.shape != b.shape:
        return False
    fin = np.isfinite(a) & np.isfinite(b)
    if not np.array_equal(a[~fin], b[~fin], equal_nan=True):
        return False
    return bool(np.all(np.abs(a[fin] - b[fin]) <= rtol * np.maximum(np.abs(a[fin]), np.abs(b[fin])) + 1e-300))
