"""./check <ID> --selftest : binding demonstration for the trace specifications.

A real trace is recorded from pyPRISM (driver or repository tests under the hooks), validated (must be
accepted), then ONE recorded field of ONE event is corrupted and the trace must be REJECTED by TLC at
that event with the expected clause.  A self-test that does not behave as predicted is a machinery
failure (exit 2); it is never a verdict about pyPRISM.  Evidence files are not touched."""
import copy

from harness.core import MachineryError
from harness import tracecheck


class _Probe(object):
    """stands in for Ctx while validating a (possibly corrupted) trace: collects the reported clauses"""

    def __init__(self, ctx):
        self.ctx = ctx
        self.tmp, self.seed, self.tier = ctx.tmp, ctx.seed, ctx.tier
        self.clauses = []
        self.traces = 0

    def violation(self, clause, rec):
        self.clauses.append((clause, rec.get('event', {}).get('seq')))
        return True

    def add_tlc(self, *a, **k):
        pass

    def skip(self, *a, **k):
        pass

    def stage(self, *a, **k):
        pass

    def sample(self, *a, **k):
        pass


def _domain(ctx):
    ev, _ = tracecheck.record_driver(ctx, 'domain_driver', [ctx.seed, 12], 'selftest_domain')
    dom = [e for e in ev if e['ev'].startswith('domain.')]
    groups = tracecheck.by_object(dom, 'domain.new')

    def corrupt(gs):
        for o, g in gs:
            for e in g:
                if e['ev'] == 'domain.set_length' and 'conj' in e:
                    e['conj'] = e['conj'] * 2
                    return e['seq']
        for o, g in gs:
            g[-1]['conj'] = g[-1]['conj'] * 2
            return g[-1]['seq']
    return 'Trace_Domain', tracecheck.DOMAIN_CFG, groups, corrupt, ('Conjugate', 'NotStale')


def _omega(ctx):
    ev, _ = tracecheck.record_driver(ctx, 'omega_driver', [ctx.seed, 30], 'selftest_omega')
    om = [e for e in ev if e['ev'] in ('omega.fromarray', 'omega.fromfile') and 'origin' in e]
    groups = [((e.get('pid'), e['obj']), [e]) for e in om]

    def corrupt(gs):
        for o, g in gs:
            e = g[0]
            if e['exc'] != '' and e['origin'] != 'file1':
                e['exc'] = ''              # a mismatching source that "did not raise"
                return e['seq']
    return 'Trace_OmegaSource', tracecheck.OMEGA_CFG, groups, corrupt, ('RejectOnMismatch',)


def _postproc(ctx):
    ev, _ = tracecheck.record_driver(ctx, 'prism_driver', [ctx.seed, 'calc', 1], 'selftest_calc')
    groups = tracecheck.postproc_groups(ev)
    rank = groups[0][1][0]['rank']
    groups = [g for g in groups if g[1][0]['rank'] == rank]

    def corrupt(gs):
        for o, g in gs:
            for e in g:
                if e['ev'].startswith('calc.'):
                    e['drift'] = dict(e['drift'], W=2)     # "omega is not the solved content any more"
                    return e['seq']
    return 'Trace_PostProc', tracecheck.postproc_cfg(rank), groups, corrupt, ('ContentsPristine.W',)


def _solve(ctx):
    import os
    from harness.props import c01_prismcore
    os.environ['VERIF_CLOSURE_TERMS'] = c01_prismcore.closure_terms(ctx)
    ev, _ = tracecheck.record_driver(ctx, 'prism_driver', [ctx.seed, 'calc', 1], 'selftest_solve')
    sv = [dict(e, obj=e['prism']) for e in ev if e['ev'] == 'prism.solve' and 'eqclass' in e]
    groups = {}
    for e in sv:
        groups.setdefault((e.get('pid'), e['obj']), []).append(e)
    groups = list(groups.items())

    def corrupt(gs):
        for o, g in gs:
            for e in g:
                if e['success'] == 1:
                    e['closclass'] = 'beyond'
                    return e['seq']
    return 'Trace_PrismSolve', tracecheck.SOLVE_CFG, groups, corrupt, ('ClosureHolds',)


TESTS = {'C07': _domain, 'C08': _domain, 'C12': _omega, 'C06': _postproc, 'C01': _solve}


def run(ctx):
    if ctx.prop not in TESTS:
        print('SELFTEST property=%s: no trace specification is bound to this property (binding is demonstrated by the seeded changes, DESIGN.md 15)' % ctx.prop)
        return 0
    module, cfg, groups, corrupt, expected = TESTS[ctx.prop](ctx)
    if not groups:
        raise MachineryError('self-test recorded no events')
    p = _Probe(ctx)
    tracecheck.validate(p, module, cfg, copy.deepcopy(groups), 'selftest.clean')
    if p.clauses:
        raise MachineryError('self-test: the uncorrupted trace is rejected (%s)' % (p.clauses[:2],))
    bad = copy.deepcopy(groups)
    seq = corrupt(bad)
    if seq is None:
        raise MachineryError('self-test: nothing to corrupt in the recorded trace')
    p = _Probe(ctx)
    tracecheck.validate(p, module, cfg, bad, 'selftest.corrupted', max_rejects=1)
    hit = [c for c, s in p.clauses if any(c.startswith(x) for x in expected)]
    if not hit:
        raise MachineryError('self-test: corrupted event seq=%s was not rejected with one of %s (got %s)' % (seq, expected, p.clauses))
    print('SELFTEST property=%s: %s accepted the recorded trace (%d objects) and rejected it after corrupting event seq=%s with clause %s'
          % (ctx.prop, module, len(groups), seq, hit[0]))
    return 0
