"""Real pyPRISM usage around Domain, run with the trace hooks on (direction B of DESIGN.md).
usage: python -m harness.drivers.domain_driver <seed> <n_random_objects>"""
import random
import sys

import numpy as np
import pyPRISM
from pyPRISM.core.Space import Space


def main():
    seed, nobj = int(sys.argv[1]), int(sys.argv[2])
    rng = random.Random(seed)
    # tutorial shapes: NB4 (length 4096, dr 0.05), domain refinement with interpolated guess (NB9)
    d = pyPRISM.Domain(length=4096, dr=0.05)
    d = pyPRISM.Domain(length=512, dr=0.1)
    m = pyPRISM.MatrixArray(length=512, rank=2, space=Space.Real)
    m['A', 'B'] = np.exp(-d.r)
    d.MatrixArray_to_fourier(m)
    try:
        d.MatrixArray_to_fourier(m)
    except ValueError:
        pass
    d.MatrixArray_to_real(m)
    try:
        d.MatrixArray_to_real(m)
    except ValueError:
        pass
    d2 = pyPRISM.Domain(length=1024, dk=0.01)
    d2.dr = 0.05
    d2.dk = 0.02
    lens = [2, 3, 7, 16, 50, 64, 100, 128, 200, 255, 256, 500, 512, 1000, 1024, 2048]
    spacings = [0.5, 0.25, 0.2, 0.1, 0.075, 0.05, 0.04, 0.025, 0.02, 0.0125, 0.3, 1.0]
    for _ in range(nobj):
        n = rng.choice(lens)
        if rng.random() < 0.6:
            d = pyPRISM.Domain(length=n, dr=rng.choice(spacings))
        else:
            d = pyPRISM.Domain(length=n, dk=rng.choice(spacings))
        for _s in range(rng.randint(0, 5)):
            r = rng.random()
            if r < 0.35:
                d.dr = rng.choice(spacings)
            elif r < 0.7:
                d.dk = rng.choice(spacings)
            else:
                d.length = rng.choice(lens)
        if len(d.r) == d.length == len(d.k) and rng.random() < 0.5:
            rank = rng.randint(1, 3)
            m = pyPRISM.MatrixArray(length=d.length, rank=rank, space=rng.choice([Space.Real, Space.Fourier]))
            for _t in range(rng.randint(1, 4)):
                try:
                    if rng.random() < 0.5:
                        d.MatrixArray_to_fourier(m)
                    else:
                        d.MatrixArray_to_real(m)
                except ValueError:
                    pass


if __name__ == '__main__':
    main()
