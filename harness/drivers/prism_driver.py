"""Real pyPRISM usage with solves, run with the trace hooks on.
usage: python -m harness.drivers.prism_driver <seed> <mode> <n>
  mode calc : solve tutorial-shaped systems and post-process them the way the notebooks do
              (several calculate.* calls on one object, repeated, re-solve from the own solution)"""
import random
import sys
import warnings

import numpy as np
import pyPRISM
from harness import systems


def calc_mode(rng, n):
    calls = [lambda p: pyPRISM.calculate.pair_correlation(p),
             lambda p: pyPRISM.calculate.structure_factor(p),
             lambda p: pyPRISM.calculate.structure_factor(p, normalize=False),
             lambda p: pyPRISM.calculate.pmf(p),
             lambda p: pyPRISM.calculate.second_virial(p),
             lambda p: pyPRISM.calculate.second_virial(p, extrapolate=False),
             lambda p: pyPRISM.calculate.chi(p),
             lambda p: pyPRISM.calculate.chi(p, extrapolate=False),
             lambda p: pyPRISM.calculate.spinodal_condition(p),
             lambda p: pyPRISM.calculate.spinodal_condition(p, extrapolate=False),
             lambda p: pyPRISM.calculate.solvation_potential(p),
             lambda p: pyPRISM.calculate.solvation_potential(p, closure='PY')]
    for cfg in [systems.SYS2, systems.SYS3, systems.SYS2D][:max(1, min(3, n))]:
        for rep in range(n):
            s = systems.build(cfg)
            p = s.solve(options={'disp': False})
            if not p.minimize_result.success:
                continue
            for _ in range(rng.randint(3, 10)):
                f = rng.choice(calls)
                try:
                    f(p)
                except Exception:
                    pass          # recorded by the hook (exc field); judged by the trace specification
            if rng.random() < 0.5:
                try:
                    p.solve(guess=np.copy(p.minimize_result.x), options={"disp": False})
                except Exception:
                    continue
                for _ in range(3):
                    try:
                        rng.choice(calls)(p)
                    except Exception:
                        pass


def main():
    seed, mode, n = int(sys.argv[1]), sys.argv[2], int(sys.argv[3])
    rng = random.Random(seed)
    with warnings.catch_warnings():
        warnings.simplefilter('ignore')
        if mode == 'calc':
            calc_mode(rng, n)


if __name__ == '__main__':
    main()
