"""Real pyPRISM usage with solves, run with the trace hooks on.
usage: python -m harness.drivers.prism_driver <seed> <mode> <n>
  mode calc : solve tutorial-shaped systems and post-process them the way the notebooks do
              (several calculate.* calls on one object, repeated, re-solve from the own solution)"""
import random
import sys
import warnings

import numpy as np
import pyPRISM
from harness import systems


def calc_mode(rng, n):
    calls = [lambda p: pyPRISM.calculate.pair_correlation(p),
             lambda p: pyPRISM.calculate.structure_factor(p),
             lambda p: pyPRISM.calculate.structure_factor(p, normalize=False),
             lambda p: pyPRISM.calculate.pmf(p),
             lambda p: pyPRISM.calculate.second_virial(p),
             lambda p: pyPRISM.calculate.second_virial(p, extrapolate=False),
             lambda p: pyPRISM.calculate.chi(p),
             lambda p: pyPRISM.calculate.chi(p, extrapolate=False),
             lambda p: pyPRISM.calculate.spinodal_condition(p),
             lambda p: pyPRISM.calculate.spinodal_condition(p, extrapolate=False),
             lambda p: pyPRISM.calculate.solvation_potential(p),
             lambda p: pyPRISM.calculate.solvation_potential(p, closure='PY')]
    for cfg in [systems.SYS2, systems.SYS3, systems.SYS2D][:max(1, min(3, n))]:
        for rep in range(n):
            s = systems.build(cfg)
            p = s.solve(options={'disp': False})
            if not p.minimize_result.success:
                continue
            for _ in range(rng.randint(3, 10)):
                f = rng.choice(calls)
                try:
                    f(p)
                except Exception:
                    pass          # recorded by the hook (exc field); judged by the trace specification
            if rng.random() < 0.5:
                try:
                    p.solve(guess=np.copy(p.minimize_result.x), options={"disp": False})
                except Exception:
                    continue
                for _ in range(3):
                    try:
                        rng.choice(calls)(p)
                    except Exception:
                        pass


def sweep_mode(rng, n):
    """NB6/NB7-shaped parameter sweeps on one System object, incomplete Systems, re-use of PRISM objects"""
    for cfg in [systems.SYS2, systems.SYS3][:max(1, min(2, n))]:
        s = systems.build(cfg)
        t0 = cfg['types'][0]
        for i in range(3 + n):
            s.density[t0] = cfg['rho'][t0] * (1.0 + 0.05 * i)
            if i % 2:
                s.kT = cfg['kT'] * (1.0 + 0.1 * i)
            p = s.solve(options={'disp': False, 'maxiter': 400})
            pyPRISM.calculate.pair_correlation(p)
        q = s.createPRISM()
        s.diameter[t0] = cfg['diam'][t0]
        q.solve(options={'disp': False, 'maxiter': 400})
    for k in range(2 + n):
        u = pyPRISM.System(['A', 'B'], kT=1.0)
        steps = [lambda: u.density.__setitem__(['A', 'B'], 0.25), lambda: u.diameter.__setitem__(['A', 'B'], 1.0),
                 lambda: u.potential.setUnset(pyPRISM.potential.HardSphere()),
                 lambda: u.closure.setUnset(pyPRISM.closure.PercusYevick()),
                 lambda: u.omega.setUnset(pyPRISM.omega.SingleSite()),
                 lambda: setattr(u, 'domain', pyPRISM.Domain(length=256, dr=0.125))]
        rng.shuffle(steps)
        for st in steps:
            for call in (u.check, u.createPRISM, lambda: u.solve(options={'disp': False, 'maxiter': 50})):
                if rng.random() < 0.5:
                    try:
                        call()
                    except ValueError:
                        pass
            st()
        u.omega['A', 'B'] = pyPRISM.omega.NoIntra()
        u.check()
        u.createPRISM()


def main():
    seed, mode, n = int(sys.argv[1]), sys.argv[2], int(sys.argv[3])
    rng = random.Random(seed)
    with warnings.catch_warnings():
        warnings.simplefilter('ignore')
        if mode == 'calc':
            calc_mode(rng, n)
        elif mode == 'sweep':
            sweep_mode(rng, n)


if __name__ == '__main__':
    main()
