"""Driver (direction B): tabulated omegas the way users supply them - arrays computed elsewhere,
arrays with their k values, one- and two-column text files - evaluated on Domains of matching and
non-matching size/spacing, directly and through System.createPRISM.  Exceptions are expected for
mismatching data and are swallowed; the recorded events are judged by Trace_OmegaSource.tla."""
import os
import sys
import tempfile
import shutil
import warnings

import numpy as np


def main(seed, n):
    import pyPRISM
    rng = np.random.default_rng(seed)
    tmp = tempfile.mkdtemp(prefix='omega_driver_')
    try:
        for it in range(n):
            N = int(rng.choice([8, 12, 16, 33]))
            if rng.random() < 0.5:
                d = pyPRISM.Domain(N, dr=float(rng.choice([0.1, 0.25, 0.075])))
            else:
                d = pyPRISM.Domain(N, dk=float(rng.choice([0.05, 0.1, 0.3])))
            k = d.k
            m = int(rng.choice([N, N, N, N - 1, N + 1, 2 * N, 1, N // 2]))
            kk = (np.arange(1, m + 1) * d.dk)
            mode = rng.choice(['exact', 'exact', 'within', 'beyond', 'rescaled', 'shifted', 'onepoint'])
            if mode == 'within':
                kk = kk * (1 + 3e-6)
            elif mode == 'beyond':
                kk = kk * (1 + 4e-5)
            elif mode == 'rescaled':
                kk = kk * 0.97
            elif mode == 'shifted':
                kk = kk + d.dk / 3
            elif mode == 'onepoint':
                kk[int(rng.integers(0, m))] *= 1.002
            w = np.exp(-kk * kk / 6.0) + 1.0
            kind = rng.choice(['array', 'arrayk', 'file1', 'file2'])
            if kind == 'array':
                om = pyPRISM.omega.FromArray(w)
            elif kind == 'arrayk':
                om = pyPRISM.omega.FromArray(w, k=kk)
            else:
                path = os.path.join(tmp, 'w%d.dat' % it)
                np.savetxt(path, w if kind == 'file1' else np.column_stack([kk, w]))
                om = pyPRISM.omega.FromFile(path)
            try:
                om.calculate(k)
            except Exception:
                pass
            if rng.random() < 0.3:
                s = pyPRISM.System(['A'], kT=1.0)
                s.domain = d
                s.density['A'] = 0.3
                s.diameter['A'] = 1.0
                s.potential['A', 'A'] = pyPRISM.potential.HardSphere()
                s.closure['A', 'A'] = pyPRISM.closure.PercusYevick()
                s.omega['A', 'A'] = om
                try:
                    with warnings.catch_warnings():
                        warnings.simplefilter('ignore')
                        P = s.createPRISM()
                        P.cost(np.zeros(N))
                except Exception:
                    pass
    finally:
        shutil.rmtree(tmp, ignore_errors=True)


if __name__ == '__main__':
    main(int(sys.argv[1]), int(sys.argv[2]))
