"""Real pyPRISM usage that builds and edits Systems the way the tutorials do (tables,
densities, diameters), run with the trace hooks on.  No solves here (see prism_driver).
usage: python -m harness.drivers.system_driver <seed> <n_random_systems>"""
import random
import sys

import numpy as np
import pyPRISM


def tutorial_shapes():
    # NB4-style: polymer nanocomposite
    s = pyPRISM.System(['particle', 'polymer'], kT=1.0)
    s.domain = pyPRISM.Domain(dr=0.1, length=1024)
    s.density['polymer'] = 0.75
    s.density['particle'] = 6e-6
    s.diameter['polymer'] = 1.0
    s.diameter['particle'] = 5.0
    s.omega['polymer', 'polymer'] = pyPRISM.omega.FreelyJointedChain(length=100, l=4.0 / 3.0)
    s.omega['polymer', 'particle'] = pyPRISM.omega.NoIntra()
    s.omega['particle', 'particle'] = pyPRISM.omega.SingleSite()
    s.potential['polymer', 'polymer'] = pyPRISM.potential.HardSphere()
    s.potential['polymer', 'particle'] = pyPRISM.potential.Exponential(alpha=0.5, epsilon=1.0)
    s.potential['particle', 'particle'] = pyPRISM.potential.HardSphere()
    s.closure['polymer', 'polymer'] = pyPRISM.closure.PercusYevick()
    s.closure['polymer', 'particle'] = pyPRISM.closure.PercusYevick()
    s.closure['particle', 'particle'] = pyPRISM.closure.HyperNettedChain()
    s.check()
    # broadcast defaults then specialise (the use case PairTable's deepcopy exists for)
    t = pyPRISM.System(['A', 'B', 'C'], kT=1.5)
    t.domain = pyPRISM.Domain(dr=0.05, length=512)
    t.potential[t.types, t.types] = pyPRISM.potential.HardSphere()
    t.closure[t.types, t.types] = pyPRISM.closure.PercusYevick()
    t.omega.setUnset(pyPRISM.omega.NoIntra())
    for x in t.types:
        t.omega[x, x] = pyPRISM.omega.SingleSite()
    t.closure['A', 'C'] = pyPRISM.closure.HyperNettedChain(apply_hard_core=True)
    t.density[['A', 'B']] = 0.25
    t.density['C'] = 0.125
    t.diameter[t.types] = 1.0
    t.diameter['B'] = 1.5
    t.check()
    # sweep: re-assignment
    for rho in (0.125, 0.25, 0.375, 0.5):
        t.density['A'] = rho
        t.diameter['C'] = 1.0 + rho
    # incomplete system: check raises
    u = pyPRISM.System(['A', 'B'])
    u.density['A'] = 0.5
    try:
        u.check()
    except ValueError:
        pass
    u.potential.setUnset(pyPRISM.potential.HardSphere())
    try:
        u.potential.check()
        u.closure.check()
    except ValueError:
        pass


def random_systems(rng, n):
    names = ['A', 'B', 'C', 'D']
    dens = [0.125, 0.25, 0.5, 0.75, 0.002, 1.0, 0.3, 0.05]
    diam = [1.0, 1.5, 2.0, 0.5, 5.0, 1.25, 0.8]
    for _ in range(n):
        T = names[:rng.randint(1, 4)]
        s = pyPRISM.System(list(T), kT=rng.choice([1.0, 0.5, 2.0]))
        for _k in range(rng.randint(1, 10)):
            r = rng.random()
            k1 = rng.sample(T, rng.randint(1, len(T)))
            k2 = rng.sample(T, rng.randint(1, len(T)))
            if rng.random() < 0.4:
                k1 = k1[0]
            if r < 0.2:
                s.density[k1] = rng.choice(dens)
            elif r < 0.4:
                s.diameter[k1] = rng.choice(diam)
            elif r < 0.55:
                s.potential[k1, k2] = rng.choice([pyPRISM.potential.HardSphere(), pyPRISM.potential.LennardJones(epsilon=1.0)])
            elif r < 0.7:
                s.closure[k1, k2] = rng.choice([pyPRISM.closure.PercusYevick(), pyPRISM.closure.HyperNettedChain()])
            elif r < 0.8:
                s.omega[k1, k2] = pyPRISM.omega.SingleSite()
            elif r < 0.85:
                s.omega.setUnset(pyPRISM.omega.NoIntra())
            elif r < 0.9:
                s.potential.setUnset(pyPRISM.potential.HardSphere())
            else:
                for tbl in (s.potential, s.closure, s.omega, s.density, s.diameter):
                    try:
                        tbl.check()
                    except ValueError:
                        pass
        # a numeric PairTable with list payloads and apply
        p = pyPRISM.PairTable(list(T), 'user')
        p[T, T] = [1.0, 2.0]
        p[T[0], T[-1]] = [3.0]
        p[T[0], T[-1]].append(4.0)
        p.apply(lambda v: [x * 2 for x in v])
        q = p.apply(lambda v: len(v), inplace=False)
        q.check()


def main():
    seed, n = int(sys.argv[1]), int(sys.argv[2])
    tutorial_shapes()
    random_systems(random.Random(seed), n)


if __name__ == '__main__':
    main()
