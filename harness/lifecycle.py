"""Composite life cycle (spec/Lifecycle.tla): histories that cross System edits, PRISM creation, the three ways of solving,
calculate.* calls and user transforms, replayed on real objects.  Used by C16 (snapshot / sweep clauses) and by C06
(ResultDependsOnSnapshotOnly), each reporting the clauses of its own statement."""
import copy
import warnings

import numpy as np

from harness.core import run_tlc, require_clean, MachineryError
from harness.graph import Graph, Walker
from harness import systems
from harness.props import c16_snapshot as c16
from harness.props.c06_history import call_variant, flatten, scribble

FNS = {'pair_correlation': '-', 'structure_factor': 'normalize=True', 'second_virial': 'extrapolate=True', 'chi': 'extrapolate=True',
       'spinodal_condition': 'extrapolate=True', 'solvation_potential': 'closure=HNC', 'pmf': '-'}
ARR = {'H': 'totalCorr', 'C': 'directCorr', 'W': 'omega'}
SOLVE_OPTS = {'disp': False, 'maxiter': 600, 'fatol': 1e-10}
BASE = {'rho.A': 1, 'rho.B': 1, 'd.A': 1, 'd.B': 1, 'pot.AA': 1, 'pot.AB': 2, 'pot.BB': 1, 'clo.AA': 1, 'clo.AB': 1, 'clo.BB': 2,
        'om.AA': 2, 'om.AB': 1, 'om.BB': 1, 'domain': 1, 'kT': 1}


def cfg_text(editable, fns, maxprisms, maxsteps):
    return '\n'.join(['CONSTANTS Editable = {%s}' % ', '.join('"%s"' % x for x in editable), 'Fns = {%s}' % ', '.join('"%s"' % x for x in fns),
                      'Arrays = {"H", "C", "W"}', 'MaxPrisms = %d' % maxprisms, 'MaxSteps = %d' % maxsteps,
                      'INIT MCInit', 'NEXT Next', 'VIEW View', 'CHECK_DEADLOCK FALSE', 'INVARIANTS ResultDependsOnSnapshotOnly SnapshotFaithful',
                      'PROPERTIES SnapshotFrozen SystemUntouched', 'ACTION_CONSTRAINT Edge', ''])


def full(cfg):
    d = dict(BASE)
    d.update(cfg)
    return d


class LifeAdapter(c16.SysAdapter):
    module = 'Lifecycle'

    def __init__(self, seed):
        c16.SysAdapter.__init__(self, seed, do_solves=True)
        self.fnref = {}

    def new(self, state):
        w = c16.SysAdapter.new(self, {'cfg': full(state['cfg'])})
        w['init'] = state
        return w

    def _step(self, w, l):
        act = l['act']
        if act in ('Edit', 'Drop'):
            return c16.SysAdapter._step(self, w, l)
        s = w['sys']
        obs = {'raises': ''}
        before = c16.fingerprint(copy.deepcopy(s))        # read off a copy: no observer effect on the System itself
        with warnings.catch_warnings():
            warnings.simplefilter('ignore')
            try:
                with np.errstate(all='ignore'):
                    if act == 'CreatePRISM':
                        w['prisms'].append(s.createPRISM())
                        w['results'].append(None)
                    elif act == 'SysSolve':
                        p = s.solve(options=dict(SOLVE_OPTS))
                        self.solves += 1
                        w['prisms'].append(p)
                        w['results'].append(p.minimize_result)
                    elif act == 'PrismSolve':
                        p = w['prisms'][l['n'] - 1]
                        if p.omega.space.name != 'Fourier':
                            return {'_skip': True}       # the user moved omega to real space by hand: solving then is outside the statements
                        guess = None
                        if l['guess'] == 'own':
                            if w['results'][l['n'] - 1] is None or not w['results'][l['n'] - 1].success:
                                return {'_skip': True}
                            guess = np.copy(p.minimize_result.x)
                        w['results'][l['n'] - 1] = p.solve(guess=guess, options=dict(SOLVE_OPTS))
                        self.solves += 1
                    elif act == 'Calc':
                        p = w['prisms'][l['n'] - 1]
                        res = w['results'][l['n'] - 1]
                        if res is None or not res.success:
                            return {'_skip': True}
                        got = call_variant(p, l['fn'], FNS[l['fn']])
                        obs['ret'] = flatten(got, list(c16.T))
                        scribble(got)                  # the returned object is the caller's to overwrite (PostProc.tla)
                        obs['ref'] = self.reference(l['result'][1], l['fn'], near=res.x)
                        if obs['ref'] is None:
                            return {'_skip': True}
                    elif act == 'UserTransform':
                        p = w['prisms'][l['n'] - 1]
                        m = getattr(p, ARR[l['array']])
                        if m.space.name == 'Real':
                            p.sys.domain.MatrixArray_to_fourier(m)
                        else:
                            p.sys.domain.MatrixArray_to_real(m)
                    else:
                        raise MachineryError('unknown action ' + act)
            except MachineryError:
                raise
            except Exception as ex:
                obs['raises'] = '%s: %s' % (type(ex).__name__, str(ex)[:200])
        obs['system_untouched'] = c16.fingerprint(s) == before
        return obs

    def reference(self, snap, fn, near=None):
        """the value of fn on a freshly built and solved System with the snapshot's parameters.  The discretised PRISM equations
        may have more than one root, and which one a solve from the zero guess reaches depends on rounding (benign/B_C01x): the
        fresh System is solved FROM the judged object's own solution, so it returns the root next to it - if that solution is a
        root of the fresh System at all (which is the statement) - and otherwise runs away from it"""
        root = None if near is None else hash(np.round(np.asarray(near) / (1.0 + float(np.max(np.abs(near)))), 5).tobytes())
        key = (repr(sorted(snap.items())), fn, root)
        if key not in self.fnref:
            sc = c16.sys_from_cfg(full(snap))
            s = systems.build(sc)
            with warnings.catch_warnings():
                warnings.simplefilter('ignore')
                with np.errstate(all='ignore'):
                    p = s.solve(guess=None if near is None else np.array(near, dtype=float), options=dict(SOLVE_OPTS))
                    self.fnref[key] = flatten(call_variant(p, fn, FNS[fn]), list(c16.T)) if p.minimize_result.success else None
        return self.fnref[key]

    def diff_obs(self, label, obs):
        out = []
        if obs.get('raises'):
            out.append(('NoException', {'observed': obs['raises'], 'call': label['act'], 'fn': label.get('fn')}))
            return out
        if obs.get('system_untouched') is False:
            out.append(('SystemUntouchedByCreateSolve', {'what': 'the System differs (deep comparison) after %s' % label['act'], 'fn': label.get('fn')}))
        if label['act'] == 'Calc':
            got, ref = obs['ret'], obs['ref']
            worst, what = 0.0, None
            if sorted(got) != sorted(ref):
                what = 'keys %s vs %s' % (sorted(got), sorted(ref))
            else:
                for k in ref:
                    if k == 'space':
                        if got[k] != ref[k]:
                            what = 'returned in %s space, fresh result in %s' % (got[k], ref[k])
                        continue
                    a, b = np.asarray(got[k], dtype=float), np.asarray(ref[k], dtype=float)
                    if a.shape != b.shape:
                        what = 'shape of %s differs' % k
                        break
                    m = np.isfinite(b)
                    if label['fn'] == 'pmf':
                        m &= np.abs(b) < 5.0        # -kT ln g amplifies by 1/g: inside the cores (g ~ 0) the value is rounding noise
                    err = float(np.max(np.abs(a[m] - b[m]))) / max(float(np.max(np.abs(b[m]))), 1e-12) if m.any() else 0.0
                    if not np.all(np.isfinite(a[m])):
                        err = float('inf')
                    worst = max(worst, err)
            if what is not None or not worst <= 1e-5:
                out.append(('ResultDependsOnSnapshotOnly', {'fn': label['fn'], 'rel_err': worst, 'prism': label['n'], 'mismatch': what,
                                                            'what': 'value differs from that of a freshly built and solved System with the snapshot parameters'}))
        return out

    def diff_state(self, want, w):
        st = {'cfg': full(want['cfg']), 'prisms': [{'snap': full(p['snap']), 'solved': p['solved']} for p in want['prisms']]}
        # solved results are compared through Calc against fresh references solved to the same tight tolerance
        keep, self.do_solves = self.do_solves, False
        try:
            return c16.SysAdapter.diff_state(self, st, w)
        finally:
            self.do_solves = keep


def run_stage(ctx, thorough, only=None, family='replay.Lifecycle'):
    """only: set of clause prefixes this property reports (None = all)"""
    editable = ['rho.A', 'kT', 'domain'] if not thorough else ['rho.A', 'kT', 'domain', 'pot.AB', 'om.AA']
    fns = ['pair_correlation', 'structure_factor', 'second_virial', 'spinodal_condition', 'solvation_potential', 'chi', 'pmf']
    steps = 6 if not thorough else 8
    res = run_tlc('MC_Lifecycle', cfg_text(editable, fns, 2, steps), ctx.tmp, seed=ctx.seed, workers=4)
    require_clean(res, 'Lifecycle')
    ctx.add_tlc('Lifecycle (%d steps, %d editable items)' % (steps, len(editable)), res, exhaustive=True)
    g = Graph(res.records['EDGE'], res.records.get('INIT'))
    ad = LifeAdapter(ctx.seed)
    if only is not None:
        real = ctx.violation

        def filtered(clause, rec):
            if any(clause.startswith(x) for x in only):
                return real(clause, rec)
            ctx.skip('lifecycle clause outside this property: ' + clause)
            return False
        ctx.violation = filtered
    try:
        w = Walker(ctx, g, ad, family)
        nr = w.random_walks(240 if thorough else 40, steps, ctx.seed)
    finally:
        if only is not None:
            ctx.violation = real
    ctx.exhaustive['binding: random walks over the Lifecycle graph'] = False
    ctx.stage(family, graph_states=len(g.state), graph_edges=g.n_edges, random_walks=nr, real_calls=w.steps, solves=ad.solves,
              fresh_references=len(ad.fnref))
