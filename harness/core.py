"""Core machinery shared by every property check.

* run_tlc        - run TLC on a module of /verif/spec (copied to a scratch dir), parse
                   the summary, the per-action coverage and every record the specification
                   exported with PrintT(<<"TAG", ToJson(...)>>)
* Ctx            - per-run context: tier, seed, scratch dir, violation reporting against
                   known_findings.json, evidence writer
Exit codes (see DESIGN.md section 5): 0 held, 1 violation, 2 machinery failure.
"""
from __future__ import annotations

import json
import os
import re
import shutil
import subprocess
import sys
import tempfile
import time

VERIF = os.path.dirname(os.path.dirname(os.path.abspath(__file__)))
SPEC_DIR = os.path.join(VERIF, 'spec')
REPO = os.environ.get('VERIF_REPO', '/repo')
OUT = os.environ.get('VERIF_OUT', VERIF)   # seeded-change runs redirect evidence/replays away from /verif
TLA_CP = '/opt/veriftools/tla/tla2tools.jar:/opt/veriftools/tla/CommunityModules-deps.jar'


class MachineryError(Exception):
    """The check itself failed (TLC crash, parse error, ...): exit 2, never a verdict."""


# --------------------------------------------------------------------------------------
# TLC
# --------------------------------------------------------------------------------------
class TLCResult(object):
    def __init__(self):
        self.generated = 0
        self.distinct = 0
        self.depth = 0
        self.records = {}       # tag -> list of decoded JSON values
        self.coverage = {}      # action name -> (distinct, total) taken
        self.violated = None    # name of violated invariant / property, if any
        self.error = None       # other TLC error text
        self.raw = ''
        self.wall = 0.0
        self.cmd = ''
        self.mode = 'bfs'


_REC = re.compile(r'^<<"([A-Z_]+)", "(.*)">>$')
_SUMMARY = re.compile(r'^(\d+) states generated, (\d+) distinct states found')
_SIMSUM = re.compile(r'^The number of states generated: (\d+)')
_DEPTH = re.compile(r'^The depth of the complete state graph search is (\d+)')
_COV = re.compile(r'^<(\w+) line \d+, col \d+ to line \d+, col \d+ of module (\w+)(?: \([\d ]+\))?>: (\d+):(\d+)')
_INV = re.compile(r'^Error: Invariant (\w+) is violated')
_PROP = re.compile(r'^Error: Action property (\w+) is violated')
_POST = re.compile(r'POSTCONDITION|post-condition', re.I)


def run_apalache(module, inv, tmpdir, cinit='CInit', length=0, timeout=900, init=None):
    """Symbolic check (Apalache, SMT over unbounded integers) of spec/<module>.tla: invariant `inv` in all states reachable within
    `length` steps from every constant valuation allowed by `cinit`.  Returns 'NoError' | 'Error' (a counterexample exists);
    anything else is a machinery failure."""
    work = tempfile.mkdtemp(prefix='apa_', dir=tmpdir)
    for f in os.listdir(SPEC_DIR):
        if f.endswith('.tla'):
            shutil.copy(os.path.join(SPEC_DIR, f), work)
    cmd = ['apalache-mc', 'check', '--cinit=' + cinit, '--inv=' + inv, '--length=%d' % length]
    if init:
        cmd.append('--init=' + init)
    cmd += ['--out-dir=' + os.path.join(work, 'out'), os.path.join(work, module + '.tla')]
    e = dict(os.environ)
    e.setdefault('JVM_ARGS', '-Xmx2g')
    try:
        p = subprocess.run(cmd, cwd=work, stdout=subprocess.PIPE, stderr=subprocess.STDOUT, timeout=timeout, env=e)
    except FileNotFoundError:
        raise MachineryError('apalache-mc is not on PATH')
    except subprocess.TimeoutExpired:
        raise MachineryError('Apalache timed out after %ss on %s.%s' % (timeout, module, inv))
    out = p.stdout.decode('utf-8', 'replace')
    m = re.search(r'The outcome is: (\w+)', out)
    if not m or m.group(1) not in ('NoError', 'Error'):
        raise MachineryError('Apalache gave no verdict on %s.%s: %s' % (module, inv, out[-600:]))
    return m.group(1)


def run_tlc(module, cfg_text, tmpdir, extra_modules=None, workers=1, simulate=None,
            depth=None, seed=1, coverage=True, timeout=1800, env=None, dfid=None,
            java_opts=None):
    """Run TLC on spec/<module>.tla with the given configuration text.

    extra_modules: {name: text} of generated modules (e.g. the MC wrapper holding the
    constants of this run).  Everything is copied to a fresh directory below tmpdir so
    nothing is ever written into /verif/spec.
    """
    work = tempfile.mkdtemp(prefix='tlc_', dir=tmpdir)
    for f in os.listdir(SPEC_DIR):
        if f.endswith('.tla'):
            shutil.copy(os.path.join(SPEC_DIR, f), work)
    for name, text in (extra_modules or {}).items():
        with open(os.path.join(work, name + '.tla'), 'w') as fh:
            fh.write(text)
    cfg = os.path.join(work, module + '.cfg')
    with open(cfg, 'w') as fh:
        fh.write(cfg_text)
    # an explicit heap bound: the JVM default (a quarter of the machine's memory per process) lets a dozen checks running side by
    # side ask for more memory than there is (TLC was killed by the kernel when 16 scratch trees were checked at once); the
    # largest model here (C03 thorough, 4e5 states) needs well under 1 GB
    cmd = ['java', '-XX:+UseParallelGC']
    if not any(o.startswith('-Xmx') for o in (java_opts or [])):
        cmd.append(os.environ.get('VERIF_TLC_XMX', '-Xmx3g'))
    cmd += list(java_opts or [])
    cmd += ['-cp', TLA_CP, 'tlc2.TLC', '-workers', str(workers),
            '-metadir', os.path.join(work, 'meta'), '-noGenerateSpecTE', '-seed', str(seed)]
    if coverage:
        cmd += ['-coverage', '1']
    if simulate is not None:
        cmd += ['-simulate', 'num=%d' % simulate]
        if depth is not None:
            cmd += ['-depth', str(depth)]
    if dfid is not None:
        cmd += ['-dfid', str(dfid)]
    cmd += ['-config', cfg, os.path.join(work, module + '.tla')]
    res = TLCResult()
    res.cmd = ' '.join(cmd[cmd.index('tlc2.TLC'):]).replace(work, '<scratch>')
    res.mode = 'simulate' if simulate is not None else 'bfs'
    e = dict(os.environ)
    e.update(env or {})
    t0 = time.time()
    try:
        p = subprocess.run(cmd, cwd=work, stdout=subprocess.PIPE, stderr=subprocess.STDOUT,
                           timeout=timeout, env=e)
    except subprocess.TimeoutExpired:
        raise MachineryError('TLC timed out after %ss on %s' % (timeout, module))
    res.wall = time.time() - t0
    out = p.stdout.decode('utf-8', 'replace')
    res.raw = out
    errs = []
    # TLC wraps a long PrintT tuple over two lines:  << "TAG",\n   "...json..." >>   -> rejoin
    out_lines = out.split('\n')
    joined = []
    i = 0
    while i < len(out_lines):
        ln = out_lines[i].rstrip('\r')
        m2 = re.match(r'^<< "([A-Z_]+)",$', ln)
        if m2 and i + 1 < len(out_lines):
            nxt = out_lines[i + 1].rstrip('\r').strip()
            if nxt.startswith('"') and nxt.endswith('" >>'):
                joined.append('<<"%s", %s>>' % (m2.group(1), nxt[:-3].rstrip()))
                i += 2
                continue
        joined.append(ln)
        i += 1
    for line in joined:
        if line.startswith('<<"'):
            m = _REC.match(line)
            if m:
                try:
                    val = json.loads(json.loads('"' + m.group(2) + '"'))
                except ValueError as ex:
                    raise MachineryError('cannot decode TLC record: %s (%s)' % (line[:200], ex))
                res.records.setdefault(m.group(1), []).append(val)
                continue
        m = _SUMMARY.match(line)
        if m:
            res.generated, res.distinct = int(m.group(1)), int(m.group(2))
            continue
        m = _SIMSUM.match(line)
        if m:
            res.generated = int(m.group(1))
            res.distinct = max(res.distinct, 1)
            continue
        m = _DEPTH.match(line)
        if m:
            res.depth = int(m.group(1))
            continue
        m = _COV.match(line)
        if m:
            name = m.group(1)
            if name in ('Edge', 'NoEdge', 'MCInit'):
                continue
            d, t = int(m.group(3)), int(m.group(4))
            od, ot = res.coverage.get(name, (0, 0))
            res.coverage[name] = (od + d, ot + t)
            continue
        m = _INV.match(line) or _PROP.match(line)
        if m:
            res.violated = m.group(1)
            continue
        if line.startswith('Error:'):
            errs.append(line)
    if res.violated is None and errs:
        # evaluation errors, parse errors, post-condition failures ...
        res.error = '\n'.join(errs)
        idx = out.find('Error:')
        res.error_context = out[idx:idx + 3000]
    if p.returncode != 0 and res.violated is None and res.error is None:
        res.error = 'TLC exit code %d\n%s' % (p.returncode, out[-3000:])
    shutil.rmtree(work, ignore_errors=True)
    return res


def require_clean(res, what):
    """The specification itself must satisfy its invariants; anything else is a machinery
    failure (the spec is ours), not a verdict about pyPRISM."""
    if res.violated is not None:
        raise MachineryError('%s: specification violates %s\n%s' % (what, res.violated, res.raw[-4000:]))
    if res.error is not None:
        raise MachineryError('%s: TLC error: %s\n%s' % (what, res.error, getattr(res, 'error_context', '')))
    return res


# --------------------------------------------------------------------------------------
# context, violations, evidence
# --------------------------------------------------------------------------------------
def load_known_findings():
    path = os.path.join(VERIF, 'known_findings.json')
    if not os.path.exists(path):
        return []
    with open(path) as fh:
        data = json.load(fh)
    return [f for f in data.get('findings', []) if f.get('status', 'open') == 'open']


def _match(pattern, record):
    """A finding's match block is a dict of key -> value | list of allowed values |
    {'re': regex}.  Every key must be present in the violation record and agree."""
    for k, want in pattern.items():
        if k not in record:
            return False
        got = record[k]
        if isinstance(want, dict) and 're' in want:
            if not re.search(want['re'], str(got)):
                return False
        elif isinstance(want, list):
            if got not in want:
                return False
        elif got != want:
            return False
    return True


class Ctx(object):
    def __init__(self, prop, tier, seed, level='model_checking'):
        self.prop = prop
        self.tier = tier
        self.seed = seed
        self.level = level
        self.t0 = time.time()
        self.tmp = tempfile.mkdtemp(prefix='verif_%s_' % prop)
        self.known = [f for f in load_known_findings() if f['property'] == prop]
        self.known_hit = {}
        self.violations = []
        self.states = 0
        self.transitions = 0
        self.traces = 0
        self.evaluations = 0
        self.distinct = set()
        self.distinct_extra = 0
        self.samples = []
        self.tlc_runs = []
        self.actions = {}
        self.stages = []
        self.assumptions = []
        self.trusted = []
        self.notes = {}
        self.exhaustive = {}
        self.skipped = {}
        self.max_report = 5

    # ---- accounting -------------------------------------------------------------
    def add_tlc(self, name, res, exhaustive=None):
        self.states += res.distinct
        self.transitions += res.generated
        self.tlc_runs.append({'run': name, 'mode': res.mode, 'states_generated': res.generated,
                              'distinct_states': res.distinct, 'depth': res.depth,
                              'wall_s': round(res.wall, 2), 'cmd': res.cmd})
        for a, (d, t) in res.coverage.items():
            od, ot = self.actions.get(a, (0, 0))
            self.actions[a] = (od + d, ot + t)
        if exhaustive is not None:
            self.exhaustive[name] = exhaustive

    def count(self, key=None, n=1):
        self.evaluations += n
        if key is not None:
            self.distinct.add(key)

    def skip(self, why, n=1):
        self.skipped[why] = self.skipped.get(why, 0) + n

    def sample(self, obj, limit=6):
        if len(self.samples) < limit:
            self.samples.append(obj)

    def stage(self, name, **info):
        d = {'stage': name}
        d.update(info)
        self.stages.append(d)

    # ---- violations -------------------------------------------------------------
    def violation(self, clause, record):
        """record: JSON-serialisable description of the failing input/history.  It is
        matched against known_findings.json; unmatched violations fail the check."""
        rec = dict(record)
        rec['clause'] = clause
        rec['property'] = self.prop
        for f in self.known:
            if _match(f['match'], rec):
                n = self.known_hit.get(f['id'], 0)
                self.known_hit[f['id']] = n + 1
                if n == 0:
                    print('KNOWN-FINDING: property=%s %s [%s]' % (self.prop, f['what'], f['id']))
                    sys.stdout.flush()
                return False
        self.violations.append(rec)
        if len(self.violations) <= self.max_report:
            os.makedirs(os.path.join(OUT, 'replays'), exist_ok=True)
            path = os.path.join(OUT, 'replays', '%s-%d.json' % (self.prop, len(self.violations)))
            with open(path, 'w') as fh:
                json.dump(rec, fh, indent=1, sort_keys=True, default=str)
            print('VIOLATION property=%s replay=%s' % (self.prop, path))
            print('  clause=%s %s' % (clause, json.dumps({k: v for k, v in rec.items()
                                                          if k in ('action', 'case', 'what', 'detail', 'family')},
                                                         default=str)[:400]))
            sys.stdout.flush()
        return True

    # ---- evidence ---------------------------------------------------------------
    def finish(self):
        wall = time.time() - self.t0
        cov = {
            'states': self.states,
            'transitions': self.transitions,
            'traces_validated_against_impl': self.traces,
            'samples': self.samples if self.samples else [{'note': 'no sample recorded'}],
            'evaluations': max(self.evaluations, 1),
            'distinct_nontrivial': len(self.distinct) + self.distinct_extra,
            'rule': self.notes.get('rule', ''),
            'exhaustive': bool(self.exhaustive) and all(self.exhaustive.values()),
            'exhaustive_per_run': self.exhaustive,
            'tlc_runs': self.tlc_runs,
            'actions': {a: {'distinct': d, 'taken': t} for a, (d, t) in sorted(self.actions.items())},
            'actions_never_taken': sorted(a for a, (d, t) in self.actions.items() if t == 0),
            'stages': self.stages,
            'skipped': self.skipped,
            'trusted_base': self.trusted,
            'known_findings_seen': self.known_hit,
            'checker_cmd': './check %s --tier %s' % (self.prop, self.tier),
        }
        for k, v in self.notes.items():
            if k != 'rule':
                cov[k] = v
        ev = {
            'property_id': self.prop,
            'tier': self.tier,
            'seed': int(self.seed),
            'level': self.level,
            'coverage': cov,
            'assumptions': self.assumptions,
            'wall_s': round(wall, 2),
            'violations': len(self.violations),
        }
        os.makedirs(os.path.join(OUT, 'evidence'), exist_ok=True)
        path = os.path.join(OUT, 'evidence', '%s.json' % self.prop)
        with open(path, 'w') as fh:
            json.dump(ev, fh, indent=1, sort_keys=True, default=str)
        shutil.rmtree(self.tmp, ignore_errors=True)
        print('%s tier=%s seed=%s: %d TLC states, %d transitions, %d behaviours replayed/validated, '
              '%d evaluations, %d violations, %d known findings, %.1fs'
              % (self.prop, self.tier, self.seed, self.states, self.transitions, self.traces,
                 self.evaluations, len(self.violations), len(self.known_hit), wall))
        return 1 if self.violations else 0

    def abort(self):
        shutil.rmtree(self.tmp, ignore_errors=True)
