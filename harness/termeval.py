"""Generic evaluator of the term signature of spec/Term.tla.  Knows nothing about pyPRISM: the
definitions live in the TLA+ modules, TLC selects and exports the term, this file only applies
arithmetic.  It is validated in every run against TLC's exact reduction (REval) on the rational
fragment (check_against_exact)."""
import math

import numpy as np


def ev(t, env):
    op = t[0]
    if op == 'q':
        return t[1] / t[2]
    if op == 'v':
        if t[1] == 'halfpi':
            return math.pi / 2
        return env[t[1]]
    if op == 'add':
        return ev(t[1], env) + ev(t[2], env)
    if op == 'sub':
        return ev(t[1], env) - ev(t[2], env)
    if op == 'mul':
        return ev(t[1], env) * ev(t[2], env)
    if op == 'div':
        return ev(t[1], env) / ev(t[2], env)
    if op == 'neg':
        return -ev(t[1], env)
    if op == 'pow':
        return ev(t[1], env) ** int(t[2])
    if op == 'e10':
        return 10.0 ** int(t[1])
    if op == 'vpow':
        return np.power(ev(t[1], env), ev(t[2], env))
    if op == 'fn':
        return env[t[1]](ev(t[2], env))
    if op == 'sum':
        lo, hi = int(round(float(ev(t[2], env)))), int(round(float(ev(t[3], env))))
        total = 0.0
        # summation variable as a leading axis, in blocks to bound memory
        step = 256
        for a in range(lo, hi + 1, step):
            idx = np.arange(a, min(a + step, hi + 1), dtype=float)
            e = dict(env)
            inner = ev(t[4], _lift(e, t[1], idx))
            inner = np.asarray(inner, dtype=float)
            total = total + (inner.sum(axis=0) if inner.ndim > 0 and inner.shape[0] == len(idx) else inner * len(idx))
        return total
    if op == 'exp':
        return np.exp(ev(t[1], env))
    if op == 'ln':
        return np.log(ev(t[1], env))
    if op == 'sqrt':
        return np.sqrt(ev(t[1], env))
    if op == 'sin':
        return np.sin(ev(t[1], env))
    raise ValueError('unknown term head %r' % (op,))


def _lift(env, name, idx):
    """bind the summation variable to a column so that it broadcasts against array-valued variables"""
    nd = 0
    for v in env.values():
        if isinstance(v, np.ndarray):
            nd = max(nd, v.ndim)
    env[name] = idx.reshape((-1,) + (1,) * nd)
    return env


def variables(t, acc=None):
    acc = set() if acc is None else acc
    if t[0] == 'v':
        acc.add(t[1])
    elif t[0] not in ('q', 'e10'):
        for a in t[1:]:
            if isinstance(a, list):
                variables(a, acc)
    return acc


def is_def(q):
    return q[1] != 0


def q2f(q):
    return q[0] / q[1]


def check_against_exact(term, env_q, exact, tol=1e-12):
    """env_q: name -> [num, den]; exact: [num, den] from TLC.  Returns None if fine, else a message."""
    if not is_def(exact):
        return None
    with np.errstate(all='ignore'):
        got = float(ev(term, {k: q2f(v) for k, v in env_q.items()}))
    want = q2f(exact)
    if abs(got - want) > tol * max(1.0, abs(want)):
        return 'evaluator %r vs TLC %r' % (got, want)
    return None
