"""Entry point: ./check <ID> [--tier quick|thorough] [--replay path] [--selftest]"""
import argparse
import importlib
import os
import sys
import traceback

from harness.core import Ctx, MachineryError

MODULES = {
    'C01': 'c01_prismcore', 'C03': 'c03_hardcore', 'C04': 'c04_invariance', 'C05': 'c05_calculate',
    'C06': 'c06_history', 'C07': 'c07_domain', 'C08': 'c08_transform', 'C09': 'c09_closures',
    'C10': 'c10_potentials', 'C11': 'c11_omega', 'C12': 'c12_omegasource', 'C13': 'c13_matrixarray',
    'C14': 'c14_tables', 'C15': 'c15_densdiam', 'C16': 'c16_snapshot', 'C17': 'c17_units',
}


def main():
    ap = argparse.ArgumentParser()
    ap.add_argument('prop')
    ap.add_argument('--tier', default=os.environ.get('VERIF_TIER', 'quick'), choices=['quick', 'thorough'])
    ap.add_argument('--replay', default=None)
    ap.add_argument('--selftest', action='store_true')
    a = ap.parse_args()
    seed = int(os.environ.get('VERIF_SEED', '20260928') or 20260928)
    if a.prop not in MODULES:
        print('unknown or unclaimed property %s' % a.prop)
        return 2
    mod = importlib.import_module('harness.props.' + MODULES[a.prop])
    ctx = Ctx(a.prop, a.tier, seed, level=getattr(mod, 'LEVEL', 'model_checking'))
    try:
        if a.replay:
            rc = mod.replay(ctx, a.replay)
            ctx.abort()
            return rc
        if a.selftest:
            rc = mod.selftest(ctx)
            ctx.abort()
            return rc
        mod.run(ctx)
        return ctx.finish()
    except MachineryError as e:
        ctx.abort()
        print('MACHINERY-ERROR property=%s: %s' % (a.prop, e))
        return 2
    except Exception:
        ctx.abort()
        traceback.print_exc()
        print('MACHINERY-ERROR property=%s: unexpected exception in the harness' % a.prop)
        return 2


if __name__ == '__main__':
    sys.exit(main())
