"""Entry point: ./check <ID> [--tier quick|thorough] [--replay path] [--selftest]"""
import argparse
import importlib
import os
import sys
import traceback

from harness.core import Ctx, MachineryError

MODULES = {
    'C01': 'c01_prismcore', 'C03': 'c03_hardcore', 'C04': 'c04_invariance', 'C05': 'c05_calculate',
    'C06': 'c06_history', 'C07': 'c07_domain', 'C08': 'c08_transform', 'C09': 'c09_closures',
    'C10': 'c10_potentials', 'C11': 'c11_omega', 'C12': 'c12_omegasource', 'C13': 'c13_matrixarray',
    'C14': 'c14_tables', 'C15': 'c15_densdiam', 'C16': 'c16_snapshot', 'C17': 'c17_units', 'C18': 'c18_debyer',
}


def generic_replay(mod, ctx, path):
    """--replay <file>: print the recorded failing input/history, re-run the check of the property against the
    current tree (evidence untouched) and report whether the recorded violation (same clause, same action) is
    still there: exit 1 if it reproduces, 0 if it does not."""
    import json
    rec = json.load(open(path))
    show = {k: v for k, v in rec.items() if k not in ('instance',)}
    print('REPLAY %s' % path)
    print(json.dumps(show, indent=1, sort_keys=True, default=str)[:6000])
    ctx.replaying = True
    ctx.known = []                     # a replay shows the raw verdict, known or not
    ctx.max_report = 0                 # do not write new replay files
    mod.run(ctx)
    same = [v for v in ctx.violations if v.get('clause') == rec.get('clause') and v.get('action') == rec.get('action')]
    ctx.abort()
    if same:
        v = same[0]
        print('REPRODUCED property=%s clause=%s action=%s (%d matching violations in this run)' % (ctx.prop, rec.get('clause'), rec.get('action'), len(same)))
        print(json.dumps({k: v[k] for k in v if k in ('family', 'expected', 'observed', 'step', 'detail', 'what')}, default=str)[:1500])
        print('VIOLATION property=%s replay=%s' % (ctx.prop, path))
        return 1
    print('NOT-REPRODUCED property=%s clause=%s action=%s: the recorded violation does not occur on the current tree' % (ctx.prop, rec.get('clause'), rec.get('action')))
    return 0


def main():
    ap = argparse.ArgumentParser()
    ap.add_argument('prop')
    ap.add_argument('--tier', default=os.environ.get('VERIF_TIER', 'quick'), choices=['quick', 'thorough'])
    ap.add_argument('--replay', default=None)
    ap.add_argument('--selftest', action='store_true')
    a = ap.parse_args()
    seed = int(os.environ.get('VERIF_SEED', '20260928') or 20260928)
    if a.prop not in MODULES:
        print('unknown or unclaimed property %s' % a.prop)
        return 2
    mod = importlib.import_module('harness.props.' + MODULES[a.prop])
    ctx = Ctx(a.prop, a.tier, seed, level=getattr(mod, 'LEVEL', 'model_checking'))
    try:
        if a.replay:
            if hasattr(mod, 'replay_record'):
                rc = mod.replay_record(ctx, a.replay)
                ctx.abort()
                return rc
            return generic_replay(mod, ctx, a.replay)
        if a.selftest:
            from harness import selftest
            rc = selftest.run(ctx)
            ctx.abort()
            return rc
        mod.run(ctx)
        return ctx.finish()
    except MachineryError as e:
        ctx.abort()
        print('MACHINERY-ERROR property=%s: %s' % (a.prop, e))
        # violations established (and printed) before the machinery failed stay violations
        return 1 if ctx.violations else 2
    except Exception:
        ctx.abort()
        traceback.print_exc()
        print('MACHINERY-ERROR property=%s: unexpected exception in the harness' % a.prop)
        return 1 if ctx.violations else 2


if __name__ == '__main__':
    sys.exit(main())
