"""Observer extension: System / PRISM / calculate events (see harness/observer.py).

For every solved PRISM object a pristine snapshot of the three stored arrays is taken when
solve() returns (both representations, moved with a deep copy of the object's own Domain); at
every calculate.* return the arrays are classified against it:
  drift 0  the data is the solved content in the space the flag claims
  drift 1  the data is the solved content in the OTHER space (flag not truthful)
  drift 2  the data is not the solved content any more
"""
import copy

import numpy as np

from harness import observer as ob

ARR = {'H': 'totalCorr', 'C': 'directCorr', 'W': 'omega'}
_SNAP = {}      # id(prism) -> {'H': {'R': data, 'F': data}, ...}
_EPOCH = {}
TOL = 1e-9


def _both(dom, m):
    a = m.get_copy()
    b = m.get_copy()
    if m.space.name == 'Real':
        dom.MatrixArray_to_fourier(b)
        return {'R': a.data, 'F': b.data}
    dom.MatrixArray_to_real(b)
    return {'F': a.data, 'R': b.data}


def snapshot(p):
    dom = copy.deepcopy(p.sys.domain)
    _SNAP[id(p)] = {x: _both(dom, getattr(p, attr)) for x, attr in ARR.items()}
    ob._KEEP.append(p)


def classify(p):
    snap = _SNAP.get(id(p))
    flags, drift = {}, {}
    for x, attr in ARR.items():
        m = getattr(p, attr)
        f = m.space.name[0]
        flags[x] = f
        if snap is None:
            drift[x] = -1
            continue
        data = np.asarray(m.data, dtype=float)

        def close(ref):
            return data.shape == ref.shape and np.all(np.isfinite(data)) and \
                float(np.max(np.abs(data - ref))) <= TOL * float(np.max(np.abs(ref))) + 1e-12
        if f in snap[x] and close(snap[x][f]):
            drift[x] = 0
        elif close(snap[x]['F' if f == 'R' else 'R']):
            drift[x] = 1
        else:
            drift[x] = 2
    return flags, drift


def pre_calc(ev, args, kwargs):
    return None


def post_calc(ev, args, kwargs, ret, exc, pre_, depth):
    p = args[0] if args else kwargs.get('PRISM')
    flags, drift = classify(p)
    fn = ev.split('.', 1)[1]
    arg = '-'
    names = {'structure_factor': 'normalize', 'second_virial': 'extrapolate', 'chi': 'extrapolate',
             'spinodal_condition': 'extrapolate', 'solvation_potential': 'closure'}
    if fn in names:
        default = {'normalize': True, 'extrapolate': True, 'closure': 'HNC'}[names[fn]]
        v = kwargs.get(names[fn], args[1] if len(args) > 1 else default)
        arg = '%s=%s' % (names[fn], v)
    return {'prism': ob.oid(p), 'fn': fn, 'arg': arg, 'flag': flags, 'drift': drift,
            'rank': int(p.sys.rank), 'known': 1 if id(p) in _SNAP else 0}


def post_solve(ev, args, kwargs, ret, exc, pre_, depth):
    p = args[0]
    if exc is not None:
        return {'prism': ob.oid(p), 'success': 0, 'rank': int(p.sys.rank)}
    ok = bool(getattr(ret, 'success', False))
    if ok:
        snapshot(p)
        _EPOCH[id(p)] = _EPOCH.get(id(p), -1) + 1
    flags, drift = classify(p)
    r = {'prism': ob.oid(p), 'success': 1 if ok else 0, 'flag': flags, 'drift': drift, 'rank': int(p.sys.rank),
         'epoch': _EPOCH.get(id(p), 0)}
    r.update(solve_classes(p))
    return r


def solve_classes(p):
    """C01: do the arrays left on the object satisfy the PRISM equation / the closures for the user's inputs?
    (independent evaluator harness/prism_eval.py; 'unjudged' when it cannot be evaluated)"""
    try:
        from harness import prism_eval
        ob.HOLD += 1
        try:
            ev = prism_eval.evaluate(p)
        finally:
            ob.HOLD -= 1
    except Exception as ex:       # the evaluator is ours: never let it disturb the execution under observation
        return {'eqclass': 'unjudged', 'closclass': 'unjudged', 'evalerr': repr(ex)[:200]}
    if not ev.get('judged'):
        return {'eqclass': 'unjudged', 'closclass': 'unjudged'}
    cl = lambda x: 'within' if x <= 1.0 else 'beyond'       # noqa: E731
    return {'eqclass': cl(ev['eq']), 'closclass': cl(ev['clos']), 'eqmilli': int(min(ev['eq'], 1e6) * 1000),
            'closmilli': int(min(ev['clos'], 1e6) * 1000)}


def post_system_solve(ev, args, kwargs, ret, exc, pre_, depth):
    # System.solve returns the PRISM object; the nested prism.solve event carries the details
    return {'sys': ob.oid(args[0]), 'prism': ob.oid(ret) if ret is not None else 0}


def post_simple(ev, args, kwargs, ret, exc, pre_, depth):
    return {'obj': ob.oid(args[0])}


def _have(s):
    out = {}
    for name in ('density', 'diameter', 'potential', 'closure', 'omega'):
        try:
            getattr(s, name).check()
            out[name] = 1
        except ValueError:
            out[name] = 0
    out['domain'] = 0 if s.domain is None else 1
    out['kT'] = 1
    return out


def _sysprint(s):
    from harness.props.c16_snapshot import fingerprint
    return fingerprint(s)


def pre_system(ev, args, kwargs):
    s = args[0]
    ob.HOLD += 1          # the nested table/density check() events of _have are not part of the execution
    try:
        return {'have': _have(s), 'print': _sysprint(s)}
    finally:
        ob.HOLD -= 1


def post_system(ev, args, kwargs, ret, exc, pre_, depth):
    s = args[0]
    ob.HOLD += 1
    try:
        same = _sysprint(s) == pre_['print']
    finally:
        ob.HOLD -= 1
    r = {'sys': ob.oid(s), 'obj': ob.oid(s), 'have': pre_['have'], 'untouched': 1 if same else 0, 'rank': int(s.rank)}
    if ev != 'system.check' and ret is not None:
        r['prism'] = ob.oid(ret)
    return r


def post_system_new(ev, args, kwargs, ret, exc, pre_, depth):
    return None if exc is not None else {'sys': ob.oid(args[0]), 'obj': ob.oid(args[0]), 'rank': int(args[0].rank)}


def _rel(n, m):
    return 'equal' if n == m else ('one' if n == 1 else ('shorter' if n < m else 'longer'))


def _krel(kk, k):
    """relation of a k column to the grid it is evaluated on (common prefix if the lengths differ)"""
    m = min(len(kk), len(k))
    a, b = np.asarray(kk[:m], dtype=float), np.asarray(k[:m], dtype=float)
    if np.any(np.isnan(a)):
        return 'nan'
    if np.array_equal(a, b):
        return 'exact'
    if np.allclose(a, b):
        return 'within'
    return 'beyond'


def post_omega(ev, args, kwargs, ret, exc, pre_, depth):
    """FromArray.calculate / FromFile.calculate: description of the source relative to the k it met"""
    self, k = args[0], np.asarray(args[1])
    if ev == 'omega.fromarray':
        data = np.asarray(self.value)
        kk = getattr(self, 'k', None)
        origin = 'array' if kk is None else 'arrayk'
    else:
        try:
            tab = np.loadtxt(self.fileName, ndmin=2)
        except Exception:
            return None
        if tab.shape[1] >= 2:
            origin, kk, data = 'file2', tab[:, 0], tab[:, 1]
        else:
            origin, kk, data = 'file1', None, tab[:, 0]
    n = int(np.asarray(data).shape[0]) if np.ndim(data) else 1
    r = {'obj': ob.oid(self), 'origin': origin, 'lenrel': _rel(n, int(k.shape[0])), 'points': n, 'grid': int(k.shape[0])}
    if kk is None:
        r['krel'] = 'none'
    else:
        r['krel'] = _krel(kk, k)
        if r['lenrel'] != 'equal' and r['krel'] != 'exact':
            r['krel'] = 'exact'         # only the number of points is described when it differs
    r['verbatim'] = 0
    if exc is None and ret is not None:
        got = np.asarray(ret)
        r['verbatim'] = 1 if (got.shape == np.asarray(data).shape and np.array_equal(got, data)) else 0
    return r


def post_cost(ev, args, kwargs, ret, exc, pre_, depth):
    """C03 at every evaluation of the cost function: per pair, how many core points violate value = -1 - GammaIn"""
    p = args[0]
    s = p.sys
    r = np.asarray(s.domain.r, dtype=float)
    T = list(s.types)
    pairs = []
    judged = 1
    # GammaIn / closure.value are internals of this implementation of cost(): the cost argument IS r * gamma (documented), so the
    # input of the closures is recomputed from it when the attribute is gone; without closure.value nothing is judged here
    x = args[1] if len(args) > 1 else kwargs.get('x')
    try:
        gam_all = np.asarray(x, dtype=float).reshape((len(r), len(T), len(T))) / r.reshape(-1, 1, 1)
    except Exception:
        gam_all = None

    class _G(object):
        def __getitem__(self, key):
            gi = getattr(p, 'GammaIn', None)
            if gi is not None:
                return gi[key]
            return gam_all[:, T.index(key[0]), T.index(key[1])]
    gamma_in = _G()
    if getattr(p, 'GammaIn', None) is None and gam_all is None:
        return {'prism': ob.oid(p), 'obj': ob.oid(p), 'pairs': [], 'judged': 0}
    for i, a in enumerate(T):
        for b in T[i:]:
            clo = s.closure[a, b]
            U = s.potential[a, b]
            flag = 1 if getattr(clo, 'apply_hard_core', False) else 0
            mean = 0.5 * (float(s.diameter[a]) + float(s.diameter[b]))
            usig = getattr(U, 'sigma', None)
            potk = type(U).__name__
            core_by_pot = potk in ('HardSphere', 'Exponential', 'HardCoreLennardJones') and type(clo).__name__ in ('PercusYevick', 'PY', 'HyperNettedChain', 'HNC')
            sigma = mean if flag else (float(usig) if usig is not None else mean)
            if flag and core_by_pot and usig is not None:
                sigma = max(mean, float(usig))
            val = getattr(clo, 'value', None)
            bad = 0
            ncore = 0
            if val is not None and exc is None:
                gin = np.asarray(gamma_in[a, b], dtype=float)
                idx = np.where((r <= sigma) & ~((np.abs(r - sigma) < 1e-6) & (r != sigma)))[0]
                ncore = int(len(idx))
                v = np.asarray(val, dtype=float)
                if v.shape == gin.shape:
                    bad = int(np.sum(~(v[idx] == -1.0 - gin[idx])))
                    if len(idx) and float(np.max(np.abs(gin[idx]))) > 1e5:
                        judged = 0          # beyond the underflow assumption high/kT >= 746 + gamma
                else:
                    bad = ncore
            # C09 at every evaluation: outside the core the output is the closure's relation of (GammaIn, wired potential);
            # the relation is the TERM exported by TLC from ClosureDefs.tla (file named by VERIF_CLOSURE_TERMS)
            relbad = -1
            try:
                from harness import prism_eval, termeval
                terms = prism_eval.load_terms()
                kind = prism_eval.CANON.get(type(clo).__name__)
                if terms is not None and kind is not None and val is not None and exc is None and getattr(clo, 'potential', None) is not None:
                    gin = np.asarray(gamma_in[a, b], dtype=float)
                    u = np.asarray(clo.potential, dtype=float)
                    v = np.asarray(val, dtype=float)
                    out = (r > sigma) if flag else np.ones(len(r), dtype=bool)
                    out &= ~((np.abs(r - sigma) < 1e-6) & (r != sigma))
                    with np.errstate(all='ignore'):
                        want = np.asarray(termeval.ev(terms['rel'][kind], {'gamma': gin, 'u': u}), dtype=float) * np.ones(len(r))
                        scale = np.abs(want) + 1.0 + np.abs(gin) + np.abs(want + 1.0 + gin)
                        ok = np.isfinite(want)
                        relbad = int(np.sum(out & ok & ~(np.abs(v - want) <= 1e-11 * scale)))
            except Exception:
                relbad = -1
            pairs.append({'a': a, 'b': b, 'clos': type(clo).__name__, 'flag': flag, 'pot': potk, 'ncore': ncore, 'bad': bad, 'relbad': relbad})
    return {'prism': ob.oid(p), 'obj': ob.oid(p), 'pairs': pairs, 'judged': judged}


def register(pre, post):
    import os
    if os.environ.get('VERIF_TRACE_COST'):
        post['prism.cost'] = post_cost
    post['omega.fromarray'] = post_omega
    post['omega.fromfile'] = post_omega
    for e in ('system.check', 'system.createPRISM', 'system.solve'):
        pre[e] = pre_system
        post[e] = post_system
    post['system.new'] = post_system_new
    for fn in ('pair_correlation', 'structure_factor', 'pmf', 'second_virial', 'chi', 'spinodal_condition', 'solvation_potential'):
        post['calc.' + fn] = post_calc
    post['prism.solve'] = post_solve
