"""Independent evaluator of the two statements of C01 on a solved PRISM object.

Written from the property text and the definitions of the specification (closure relations and their
derivatives as terms exported by TLC from ClosureDefs.tla, the discrete transform pair of Domain.tla via
harness/refmath.py).  It NEVER calls PRISM.cost and never reads PRISM.omega / closure.potential /
closure.sigma: Omega, u(r)/kT and sigma are recomputed from the inputs the user specified (the System
snapshot: densities, diameters, kT, fresh copies of the omega and potential objects).

Returns ratios; a ratio <= 1 means "within the bound the statement allows":
  eq    max_k ||P - Omega C (Omega + P)|| / (scale_k * 1e-9 * cond(I - Omega C))      P = rhoPair o H
  clos  max_pair,i |c_i - clos(gamma*_i, u_i)| / (S_i |fun_i| / r_i + floor_i)   gamma* = h - c,
        S_i = max |dclos/dgamma| at gamma* and at gamma_in = gamma* - fun/r
"""
import copy
import json
import math
import os

import numpy as np

from harness.refmath import dense_transforms
from harness import termeval

FWD, BWD = 4 * math.pi, 1.0 / (2 * math.pi ** 2)
CANON = {'PercusYevick': 'PY', 'PY': 'PY', 'HyperNettedChain': 'HNC', 'HNC': 'HNC', 'MeanSphericalApproximation': 'MSA', 'MSA': 'MSA',
         'MartynovSarkisov': 'MS', 'MS': 'MS'}
_TERMS = None


def load_terms(path=None):
    """closure relation terms and their gamma-derivatives, exported by TLC (ClosureDefs.tla) into a JSON file"""
    global _TERMS
    if _TERMS is None:
        path = path or os.environ.get('VERIF_CLOSURE_TERMS')
        if not path or not os.path.exists(path):
            return None
        with open(path) as fh:
            _TERMS = json.load(fh)
    return _TERMS


def set_terms(t):
    global _TERMS
    _TERMS = t


def real_and_fourier(P, MF, MR):
    from pyPRISM.core.Space import Space
    H = np.array(P.totalCorr.data, dtype=float)
    C = np.array(P.directCorr.data, dtype=float)
    Hr = H if P.totalCorr.space == Space.Real else np.einsum('xn,nab->xab', MR, H)
    Hk = np.einsum('xn,nab->xab', MF, Hr)
    Ck = C if P.directCorr.space == Space.Fourier else np.einsum('xn,nab->xab', MF, C)
    Cr = np.einsum('xn,nab->xab', MR, Ck)
    return Hr, Hk, Cr, Ck


def user_inputs(P, spec=None):
    """Omega(k) (site-density scaled), rhoPair, per pair u(r)/kT and sigma - from the System snapshot only, or, when the
    caller knows it, from the DESCRIPTION the System was built from (harness/systems.py dict): then nothing the library may
    have written into the user's objects (e.g. a defaulted sigma) can leak into the oracle"""
    if spec is not None:
        return spec_inputs(P, spec)
    s = P.sys
    T = list(s.types)
    R = len(T)
    r = np.asarray(s.domain.r, dtype=float)
    k = np.asarray(s.domain.k, dtype=float)
    rho = np.array([float(s.density[t]) for t in T])
    site = np.array([[rho[i] if i == j else rho[i] + rho[j] for j in range(R)] for i in range(R)])
    pair = np.outer(rho, rho)
    Om = np.zeros((len(k), R, R))
    u = {}
    sig = {}
    for i, a in enumerate(T):
        for j, b in enumerate(T):
            if j < i:
                continue
            om = copy.deepcopy(s.omega[a, b])
            w = np.asarray(om.calculate(np.array(k)), dtype=float) * np.ones(len(k))
            Om[:, i, j] = Om[:, j, i] = w * site[i, j]
            U = copy.deepcopy(s.potential[a, b])
            mean = 0.5 * (float(s.diameter[a]) + float(s.diameter[b]))
            if getattr(U, 'sigma', None) is None:
                U.sigma = mean
            with np.errstate(all='ignore'):
                u[(i, j)] = np.asarray(U.calculate(np.array(r)), dtype=float) / float(s.kT)
            sig[(i, j)] = mean
    return T, r, k, rho, site, pair, Om, u, sig


def spec_inputs(P, spec):
    from harness import systems
    T = list(spec['types'])
    R = len(T)
    n, dr = int(spec['length']), float(spec['dr'])
    r = np.arange(1, n + 1) * dr
    k = np.arange(1, n + 1) * (math.pi / (dr * n))
    rho = np.array([float(spec['rho'][t]) for t in T])
    site = np.array([[rho[i] if i == j else rho[i] + rho[j] for j in range(R)] for i in range(R)])
    pair = np.outer(rho, rho)
    Om = np.zeros((n, R, R))
    u, sig = {}, {}
    for i, a in enumerate(T):
        for j, b in enumerate(T):
            if j < i:
                continue
            key = '%s-%s' % (a, b) if '%s-%s' % (a, b) in spec['omega'] else '%s-%s' % (b, a)
            w = np.asarray(systems.make_omega(spec['omega'][key], k).calculate(np.array(k)), dtype=float) * np.ones(n)
            Om[:, i, j] = Om[:, j, i] = w * site[i, j]
            U = systems.make_potential(spec['pot'][key])
            mean = 0.5 * (float(spec['diam'][a]) + float(spec['diam'][b]))
            over = spec.get('sigma_override') or {}           # a non-additive contact distance the user wrote into the sigma table
            mean = float(over.get('%s-%s' % (a, b), over.get('%s-%s' % (b, a), mean)))
            if getattr(U, 'sigma', None) is None:
                U.sigma = mean
            with np.errstate(all='ignore'):
                u[(i, j)] = np.asarray(U.calculate(np.array(r)), dtype=float) / float(spec['kT'])
            sig[(i, j)] = mean
    return T, r, k, rho, site, pair, Om, u, sig


def evaluate(P, terms=None, max_len=2100, spec=None):
    terms = terms or load_terms()
    n = int(P.sys.domain.length)
    out = {'judged': False, 'eq': None, 'clos': None, 'n': n}
    if terms is None or n > max_len:
        out['why'] = 'no terms' if terms is None else 'grid too long for the dense reference transform'
        return out
    dom = P.sys.domain
    MF, MR = dense_transforms(n, float(dom.dr), float(dom.dk), FWD, BWD)
    Hr, Hk, Cr, Ck = real_and_fourier(P, MF, MR)
    T, r, k, rho, site, pair, Om, u, sig = user_inputs(P, spec)
    R = len(T)
    if not (np.all(np.isfinite(Hr)) and np.all(np.isfinite(Ck))):
        out.update({'judged': True, 'eq': 1e9, 'clos': 1e9, 'why': 'stored arrays are not finite'})
        return out
    # ---- (i) matrix PRISM equation at every wavenumber
    Pk = Hk * pair[None, :, :]
    OC = np.einsum('kab,kbc->kac', Om, Ck)
    E = Pk - np.einsum('kab,kbc->kac', OC, Om + Pk)
    nrm = lambda A: np.sqrt(np.sum(A * A, axis=(1, 2)))       # noqa: E731
    scale = nrm(OC) * nrm(Om + Pk) + nrm(Pk) + 1e-300
    cond = np.array([np.linalg.cond(np.eye(R) - OC[i]) for i in range(n)])
    eqr = nrm(E) / (scale * 1e-9 * np.maximum(cond, 1.0))
    out['eq'] = float(np.max(eqr))
    out['eq_at'] = int(np.argmax(eqr))
    # ---- (ii) every pair's closure at every grid distance
    res = getattr(P, 'minimize_result', None)
    fun = np.asarray(res.fun, dtype=float).reshape(n, R, R) if res is not None and np.size(res.fun) == n * R * R else np.zeros((n, R, R))
    worst, where = 0.0, None
    for (i, j), uu in u.items():
        clo = P.sys.closure[T[i], T[j]]
        kind = CANON.get(type(clo).__name__)
        spec_flag = None
        if spec is not None:                       # which closure the user asked for, and with which flag
            cs = spec['clo'].get('%s-%s' % (T[i], T[j]), spec['clo'].get('%s-%s' % (T[j], T[i])))
            kind, spec_flag = CANON.get(cs[0], cs[0]), bool(cs[1]) if len(cs) > 1 else False
        if kind is None:
            continue
        c = 0.5 * (Cr[:, i, j] + Cr[:, j, i])
        h = 0.5 * (Hr[:, i, j] + Hr[:, j, i])
        gs = h - c
        f = np.maximum(np.abs(fun[:, i, j]), np.abs(fun[:, j, i])) / r
        gin = gs - fun[:, i, j] / r
        flag = bool(getattr(clo, 'apply_hard_core', False)) if spec_flag is None else spec_flag
        sigma = sig[(i, j)]
        core = (r <= sigma) if flag else np.zeros(n, dtype=bool)
        noise = (np.abs(r - sigma) < 1e-6) & (r != sigma) if flag else np.zeros(n, dtype=bool)     # C10's business
        rels = [kind] + (['MSalt'] if kind == 'MS' else [])
        best = None
        for name in rels:
            with np.errstate(all='ignore'):
                want = np.where(core, -1.0 - gs, np.asarray(termeval.ev(terms['rel'][name], {'gamma': gs, 'u': uu}), dtype=float))
                d1 = np.abs(np.asarray(termeval.ev(terms['drel'][name], {'gamma': gs, 'u': uu}), dtype=float) * np.ones(n))
                d2 = np.abs(np.asarray(termeval.ev(terms['drel'][name], {'gamma': gin, 'u': uu}), dtype=float) * np.ones(n))
                S = np.where(core, 1.0, np.fmax(d1, d2))
                S = np.where(np.isfinite(S), S, 1.0)
                bound = S * f * 1.5 + 1e-8 * (1.0 + np.abs(c) + np.abs(gs))
                dev = np.abs(c - want) / bound
            ok = np.isfinite(want) & ~noise
            # where the relation is not real (MS square root) or overflows nothing is demanded
            ratio = float(np.max(dev[ok])) if ok.any() else 0.0
            at = int(np.argmax(np.where(ok, dev, -1.0))) if ok.any() else -1
            if best is None or ratio < best[0]:
                best = (ratio, at, name)
        if best[0] > worst:
            worst, where = best[0], {'pair': [T[i], T[j]], 'closure': kind, 'flag': flag, 'point': best[1], 'r': float(r[best[1]]) if best[1] >= 0 else None,
                                    'c': float(c[best[1]]), 'gamma': float(gs[best[1]]), 'u': float(uu[best[1]]), 'fun_over_r': float(f[best[1]])}
    out['clos'] = float(worst)
    out['clos_at'] = where
    out['judged'] = True
    out['cond_max'] = float(np.max(cond))
    out['fun_max'] = float(np.max(np.abs(fun))) if fun.size else None
    return out
