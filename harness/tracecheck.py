"""Code -> spec conformance: record NDJSON traces from real pyPRISM executions (hooks in
pyPRISM/_verif_trace.py, guarded by PYPRISM_VERIF_TRACE) and let TLC decide whether each trace
is a behaviour of the specification (spec/Trace_*.tla)."""
import json
import os
import subprocess
import sys

from harness.core import run_tlc, MachineryError, REPO, VERIF

PY = '/venv/bin/python'


def _env(trace_path):
    e = dict(os.environ)
    e['PYPRISM_VERIF_TRACE'] = trace_path
    e['PYPRISM_VERIF_OBSERVER'] = 'harness.observer'
    e['PYTHONPATH'] = REPO + os.pathsep + VERIF
    e['PYTHONDONTWRITEBYTECODE'] = '1'
    e['PYTHONHASHSEED'] = '0'
    return e


def record_pytest(ctx, files, name):
    """run (part of) the repository's own suite with the hooks on"""
    path = os.path.join(ctx.tmp, name + '.ndjson')
    cmd = [PY, '-W', 'ignore', '-m', 'pytest', '-q', '-p', 'no:cacheprovider', '--timeout=900', '-x'] + \
          [os.path.join('pyPRISM', 'test', f) for f in files]
    p = subprocess.run(cmd, cwd=REPO, env=_env(path), stdout=subprocess.PIPE, stderr=subprocess.STDOUT)
    out = p.stdout.decode('utf-8', 'replace')
    # a failing repository test is not our verdict; the trace of what did run is still validated
    return load(path), {'cmd': ' '.join(cmd[3:]), 'exit': p.returncode, 'tail': out.strip().split('\n')[-1][:200]}


def record_driver(ctx, driver, args, name):
    """run one of harness/drivers/*.py (real pyPRISM usage written as a user would) with hooks on"""
    path = os.path.join(ctx.tmp, name + '.ndjson')
    cmd = [PY, '-W', 'ignore', '-m', 'harness.drivers.' + driver] + [str(a) for a in args]
    p = subprocess.run(cmd, cwd=VERIF, env=_env(path), stdout=subprocess.PIPE, stderr=subprocess.STDOUT)
    out = p.stdout.decode('utf-8', 'replace')
    if p.returncode != 0:
        # the drivers are plain, valid pyPRISM usage that completes on a tree where the properties hold; an
        # exception raised INSIDE pyPRISM (innermost frame in the package) is a verdict, anything else is ours
        frames = [ln for ln in out.split('\n') if ln.strip().startswith('File "')]
        if frames and os.sep + 'pyPRISM' + os.sep in frames[-1] and 'harness' not in frames[-1]:
            ctx.violation('DriverCompletes', {'family': 'driver.' + driver, 'action': driver, 'args': [str(a) for a in args],
                                              'detail': 'valid usage raised inside pyPRISM', 'what': out.strip().split('\n')[-1][:300],
                                              'where': frames[-1].strip()[:300]})
            return load(path), {'cmd': ' '.join(cmd[3:]), 'exit': p.returncode}
        raise MachineryError('driver %s failed:\n%s' % (driver, out[-3000:]))
    return load(path), {'cmd': ' '.join(cmd[3:]), 'exit': 0}


def load(path):
    ev = []
    if not os.path.exists(path):
        return ev
    with open(path) as fh:
        for line in fh:
            line = line.strip()
            if line:
                ev.append(json.loads(line))
    for n, e in enumerate(ev):
        if '_observer_error' in e:
            raise MachineryError('observer failed on event %s: %s' % (e.get('ev'), e['_observer_error']))
    return ev


def by_object(events, new_event, key='obj'):
    """stable re-ordering: the sub-trace of each object, objects in order of creation.
    Objects whose creation was not recorded (created before the hooks) are dropped."""
    order, groups = [], {}
    for e in events:
        o = (e.get('pid'), e.get(key))
        if e['ev'] == new_event:
            if o not in groups:
                order.append(o)
                groups[o] = []
        if o in groups:
            groups[o].append(e)
    return [(o, groups[o]) for o in order]


def validate(ctx, module, cfg_text, groups, family, prop_clause_prefix='', max_rejects=8, workers=1):
    """groups: list of (object key, [events]).  Returns (#objects accepted, #events accepted).
    A rejected object is reported (violation, with the failing clause TLC named), removed, and the
    rest is validated again, so one defect does not hide the remainder of the trace."""
    groups = [g for g in groups if g[1]]
    rejected = 0
    total_events = 0
    while True:
        events = [e for _, evs in groups for e in evs]
        if not events:
            return 0, total_events
        path = os.path.join(ctx.tmp, '%s_%d.ndjson' % (module, rejected))
        with open(path, 'w') as fh:
            for e in events:
                fh.write(json.dumps(e, sort_keys=True) + '\n')
        res = run_tlc(module, cfg_text, ctx.tmp, workers=workers, seed=ctx.seed, coverage=False,
                      env={'TRACE_FILE': path})
        tr = res.records.get('TRACE', [])
        if res.violated is not None:
            # an invariant of the specification failed in a state bound to logged data
            acc = _accepted_from_depth(res)
            e = events[min(acc, len(events) - 1)] if events else {}
            _report(ctx, family, res.violated, e, acc, len(events), prop_clause_prefix)
        elif not tr:
            raise MachineryError('%s: TLC produced no verdict\n%s' % (module, (res.error or '') + res.raw[-3000:]))
        else:
            acc, tot = tr[-1]['accepted'], tr[-1]['total']
            if acc == tot:
                ctx.add_tlc('trace:' + family, res)
                ctx.traces += len(groups)
                return len(groups), total_events + tot
            rej = res.records.get('REJECT', [])
            # the clause printed for the first event that could not be consumed
            at = [r for r in rej if r['l'] == acc + 1]
            clause = at[0]['clause'] if at else 'NoEnabledAction'
            e = events[acc]
            _report(ctx, family, clause, e, acc, tot, prop_clause_prefix)
        # drop the offending object and validate the rest
        bad = (e.get('pid'), e.get('obj'))
        before = len(groups)
        groups = [g for g in groups if g[0] != bad]
        rejected += 1
        if len(groups) == before or rejected >= max_rejects:
            ctx.skip('trace objects not validated after %d rejections (%s)' % (rejected, family), len(groups))
            return 0, total_events


def _accepted_from_depth(res):
    import re
    m = re.findall(r'^State (\d+):', res.raw, re.M)
    return max(0, max(int(x) for x in m) - 2) if m else 0


def _report(ctx, family, clause, event, accepted, total, prefix):
    rec = {'family': family, 'module': 'trace', 'action': event.get('ev'), 'detail': clause,
           'event': event, 'accepted_prefix': accepted, 'trace_length': total}
    ctx.violation(prefix + clause, rec)


# --------------------------------------------------------------------------------------
DOMAIN_CFG = '\n'.join([
    'CONSTANTS Lens = {}', 'Spacings = {}', 'MaxSteps = 100000000',
    'INIT TraceInit', 'NEXT TraceNext', 'VIEW TraceView', 'CHECK_DEADLOCK FALSE',
    'INVARIANTS Conjugate GridSize NotStale FreshEquivalent RoundTripIsIdentity',
    'POSTCONDITION TraceAccepted', ''])


def domain_traces(ctx):
    thorough = ctx.tier == 'thorough'
    ev1, i1 = record_pytest(ctx, ['Domain_test.py', 'PRISM_test.py'], 'suite_domain')
    ev2, i2 = record_driver(ctx, 'domain_driver', [ctx.seed, 400 if thorough else 60], 'driver_domain')
    n_obj = n_ev = 0
    for name, evs, info in (('suite', ev1, i1), ('driver', ev2, i2)):
        dom = [e for e in evs if e['ev'].startswith('domain.')]
        # transform events belong to the Domain object that performed them
        groups = by_object(dom, 'domain.new')
        a, b = validate(ctx, 'Trace_Domain', DOMAIN_CFG, groups, 'trace.Domain.' + name)
        n_obj += a
        n_ev += b
        ctx.stage('trace.Domain.' + name, objects=len(groups), objects_accepted=a, events_accepted=b, source=info)
    if dom:
        ctx.sample({'trace_event': dom[len(dom) // 2]})
    return n_obj, n_ev


# --------------------------------------------------------------------------------------
def tables_cfg(n, sym):
    return '\n'.join([
        'CONSTANTS N = %d' % n, 'Sym = %s' % ('TRUE' if sym else 'FALSE'), 'Vals = {}',
        'INIT TraceInit', 'NEXT TraceNext', 'VIEW TraceView', 'CHECK_DEADLOCK FALSE',
        'INVARIANTS TypeOK AliasCoherent RefinesMap Symmetric IsolationMutable',
        'POSTCONDITION TraceAccepted', ''])


def _prepare_table_object(evs):
    """None if the object cannot be judged (documented modelling limits), else the events with
    the caller's object masked out where it is itself a stored value"""
    stored = set()
    out = []
    for e in evs:
        e = dict(e)
        if e['ev'] in ('pt.set', 'vt.set'):
            ks = [e.get('k1'), e.get('k2')] if e['ev'] == 'pt.set' else [e.get('k')]
            if any(k is None for k in ks):
                return None                      # one-shot iterable keys: not inspectable
        if 'arg' in e:
            if e['arg'].get('none') and e['exc'] == '':
                return None                      # explicit assignment of None
            if e['arg']['tok'] in stored:
                e['arg'] = dict(e['arg'], mut=2)  # caller's object is a stored value: identity not constrained
        if 'tok' in e:
            t = e['tok']
            stored = set(x for row in t for x in (row if isinstance(row, list) else [row]) if x)
        out.append(e)
    return out


def tables_traces(ctx, sources):
    """sources: list of (name, events, info)"""
    tot_obj = tot_ev = 0
    sample = None
    for name, evs, info in sources:
        pts = by_object([e for e in evs if e['ev'].startswith('pt.')], 'pt.new')
        vts = by_object([e for e in evs if e['ev'].startswith('vt.')], 'vt.new')
        buckets = {}
        skipped = 0
        for o, g in pts:
            n, sym = g[0]['n'], bool(g[0]['sym'])
            p = _prepare_table_object(g)
            if p is None or n > 4:
                skipped += 1
                continue
            buckets.setdefault((n, sym), []).append((o, p))
        for o, g in vts:
            n = g[0]['n']
            p = _prepare_table_object(g)
            if p is None or n > 4:
                skipped += 1
                continue
            buckets.setdefault((n, True), []).append((o, p))
        if skipped:
            ctx.skip('table objects outside the modelled usage (one-shot iterable keys, explicit None, > 4 types)', skipped)
        for (n, sym), groups in sorted(buckets.items()):
            a, b = validate(ctx, 'Trace_Tables', tables_cfg(n, sym), groups, 'trace.Tables.%s.N%d.%s' % (name, n, 'sym' if sym else 'nonsym'))
            tot_obj += a
            tot_ev += b
            ctx.stage('trace.Tables.' + name, n=n, sym=sym, objects=len(groups), objects_accepted=a, events_accepted=b, source=info)
            if sample is None and groups:
                sample = groups[0][1][min(1, len(groups[0][1]) - 1)]
    if sample:
        ctx.sample({'trace_event': sample})
    return tot_obj, tot_ev


# --------------------------------------------------------------------------------------
def densdiam_cfg(n):
    return '\n'.join([
        'CONSTANTS N = %d' % n, 'Vals = {}', 'INIT TraceInit', 'NEXT TraceNext', 'VIEW TraceView',
        'CHECK_DEADLOCK FALSE', 'INVARIANTS PairOK SiteOK TotalOK SigmaOK VolumeOK SymmetricOK',
        'POSTCONDITION TraceAccepted', ''])


def densdiam_traces(ctx, sources):
    tot_obj = tot_ev = 0
    sample = None
    for name, evs, info in sources:
        dens = by_object([e for e in evs if e['ev'].startswith('density.')], 'density.new')
        diam = by_object([e for e in evs if e['ev'].startswith('diameter.')], 'diameter.new')
        buckets = {}
        inexact = 0
        for o, g in dens + diam:
            n = g[0]['n']
            ok = all(e.get('exact', 1) == 1 and e.get('vexact', 1) == 1 and e.get('k', []) is not None for e in g)
            neg = any(isinstance(x, int) and x < 0 for e in g for key in ('pair', 'site', 'sig2') for row in e.get(key, []) for x in row)
            if not ok or neg or n > 4:
                inexact += 1
                continue
            buckets.setdefault(n, []).append((o, g))
        if inexact:
            ctx.skip('Density/Diameter objects with values not exact in the logged units', inexact)
        for n, groups in sorted(buckets.items()):
            a, b = validate(ctx, 'Trace_DensDiam', densdiam_cfg(n), groups, 'trace.DensDiam.%s.N%d' % (name, n))
            tot_obj += a
            tot_ev += b
            ctx.stage('trace.DensDiam.' + name, n=n, objects=len(groups), objects_accepted=a, events_accepted=b, source=info)
            if sample is None and groups:
                sample = groups[0][1][-1]
    if sample:
        ctx.sample({'trace_event': sample})
    return tot_obj, tot_ev


# --------------------------------------------------------------------------------------
def postproc_cfg(rank):
    return '\n'.join([
        'CONSTANTS Rank = %d' % rank, 'MaxResolve = 1000000', 'Deviant = FALSE',
        'INIT TraceInit', 'NEXT TraceNext', 'VIEW TraceView', 'CHECK_DEADLOCK FALSE',
        'INVARIANTS ContentsPristine FlagTruthful NoSpaceError',
        'POSTCONDITION TraceAccepted', ''])


def postproc_groups(evs):
    """per PRISM object: the successful solve events and the depth-0 calculate events after the first"""
    order, groups = [], {}
    for e in evs:
        if e['ev'] == 'prism.solve':
            o = (e.get('pid'), e['prism'])
            if e.get('success') == 1:
                if o not in groups:
                    order.append(o)
                    groups[o] = []
                groups[o].append(dict(e, obj=e['prism']))
        elif e['ev'].startswith('calc.') and e.get('depth') == 0:
            o = (e.get('pid'), e['prism'])
            if o in groups:
                groups[o].append(dict(e, obj=e['prism']))
    return [(o, groups[o]) for o in order]


def postproc_traces(ctx, extra_sources=()):
    thorough = ctx.tier == 'thorough'
    ev1, i1 = record_pytest(ctx, ['CalcPRISM_test.py'], 'suite_calc')
    ev2, i2 = record_driver(ctx, 'prism_driver', [ctx.seed, 'calc', 6 if thorough else 2], 'driver_calc')
    tot = 0
    for name, evs, info in [('suite', ev1, i1), ('driver', ev2, i2)] + list(extra_sources):
        groups = postproc_groups(evs)
        byrank = {}
        for o, g in groups:
            byrank.setdefault(g[0]['rank'], []).append((o, g))
        for rank, gs in sorted(byrank.items()):
            a, b = validate(ctx, 'Trace_PostProc', postproc_cfg(rank), gs, 'trace.PostProc.%s.rank%d' % (name, rank))
            tot += a
            ctx.stage('trace.PostProc.' + name, rank=rank, objects=len(gs), objects_accepted=a, events_accepted=b, source=info)
        if groups:
            ctx.sample({'trace_event': groups[0][1][-1]})
    return tot


# --------------------------------------------------------------------------------------
SYSTEM_CFG = '\n'.join([
    'CONSTANTS Items = {"density", "diameter", "potential", "closure", "omega", "domain", "kT"}',
    'Optional = {"kT"}', 'Editable = {}', 'Resets <- NoResets', 'Needs <- NoNeeds', 'Versions <- TwoVersions', 'Warnings <- NoWarnings', 'MaxMissing = 0', 'MaxPrisms = 1', 'MaxSteps = 1000000',
    'INIT TraceInit', 'NEXT TraceNext', 'VIEW TraceView', 'CHECK_DEADLOCK FALSE',
    'INVARIANTS CreateRaisesIffIncomplete',
    'POSTCONDITION TraceAccepted', ''])


def system_traces(ctx, sources):
    tot = 0
    for name, evs, info in sources:
        # top-level calls only: System.solve()/createPRISM() call check() themselves
        sysev = [e for e in evs if e['ev'] in ('system.check', 'system.createPRISM', 'system.solve')
                 and not e.get('parent', '').startswith('system.')]
        groups = {}
        order = []
        for e in sysev:
            o = (e.get('pid'), e['sys'])
            if o not in groups:
                groups[o] = []
                order.append(o)
            groups[o].append(e)
        gl = [(o, groups[o]) for o in order]
        a, b = validate(ctx, 'Trace_SystemLife', SYSTEM_CFG, gl, 'trace.SystemLife.' + name)
        tot += a
        ctx.stage('trace.SystemLife.' + name, systems=len(gl), systems_accepted=a, events_accepted=b, source=info)
        if gl:
            ctx.sample({'trace_event': gl[0][1][-1]})
    return tot


# --------------------------------------------------------------------------------------
OMEGA_CFG = '\n'.join(['INIT TraceInit', 'NEXT TraceNext', 'VIEW TraceView', 'CHECK_DEADLOCK FALSE',
                       'POSTCONDITION TraceAccepted', ''])


def omega_traces(ctx, sources):
    tot = 0
    for name, evs, info in sources:
        om = [e for e in evs if e['ev'] in ('omega.fromarray', 'omega.fromfile') and 'origin' in e]
        groups, order = {}, []
        for e in om:
            o = (e.get('pid'), e['obj'])
            if o not in groups:
                groups[o] = []
                order.append(o)
            groups[o].append(e)
        gl = [(o, groups[o]) for o in order]
        a, b = validate(ctx, 'Trace_OmegaSource', OMEGA_CFG, gl, 'trace.OmegaSource.' + name)
        tot += a
        ctx.stage('trace.OmegaSource.' + name, sources=len(gl), sources_accepted=a, events_accepted=b, source=info)
        if gl:
            ctx.sample({'trace_event': gl[0][1][-1]})
    return tot


# --------------------------------------------------------------------------------------
SOLVE_CFG = '\n'.join(['CONSTANTS Ranks = {0}', 'ClosurePatterns = {"trace"}', 'PotentialPatterns = {"trace"}', 'OmegaPatterns = {"trace"}',
                       'Methods = {"?"}', 'INIT TraceInit', 'NEXT TraceNext', 'VIEW TraceView', 'CHECK_DEADLOCK FALSE',
                       'INVARIANTS SuccessImpliesEquations', 'POSTCONDITION TraceAccepted', ''])


def solve_traces(ctx, sources):
    """prism.solve events (one sub-trace per PRISM object) against Trace_PrismSolve.tla"""
    tot = 0
    for name, evs, info in sources:
        sv = [dict(e, obj=e['prism']) for e in evs if e['ev'] == 'prism.solve' and 'eqclass' in e]
        errs = [e for e in evs if e['ev'] == 'prism.solve' and e.get('evalerr')]
        if errs:
            raise MachineryError('evaluator failed inside the observer: %s' % errs[0]['evalerr'])
        groups, order = {}, []
        for e in sv:
            o = (e.get('pid'), e['obj'])
            if o not in groups:
                groups[o] = []
                order.append(o)
            groups[o].append(e)
        gl = [(o, groups[o]) for o in order]
        a, b = validate(ctx, 'Trace_PrismSolve', SOLVE_CFG, gl, 'trace.PrismSolve.' + name)
        tot += a
        judged = sum(1 for e in sv if e['eqclass'] != 'unjudged' and e['success'] == 1)
        ctx.stage('trace.PrismSolve.' + name, objects=len(gl), objects_accepted=a, events_accepted=b, successful_solves_judged=judged, source=info)
        if gl:
            ctx.sample({'trace_event': {k: v for k, v in gl[0][1][-1].items() if k not in ('flag', 'drift')}})
    return tot


# --------------------------------------------------------------------------------------
COST_CFG = '\n'.join(['CONSTANTS L = 1', 'INIT TraceInit', 'NEXT TraceNext', 'VIEW TraceView', 'CHECK_DEADLOCK FALSE', 'POSTCONDITION TraceAccepted', ''])


def cost_traces(ctx, sources, max_events=1500):
    """prism.cost events (one sub-trace per PRISM object) against Trace_HardCore.tla"""
    tot = 0
    for name, evs, info in sources:
        cv = [e for e in evs if e['ev'] == 'prism.cost' and 'pairs' in e]
        groups, order = {}, []
        for e in cv:
            o = (e.get('pid'), e['obj'])
            if o not in groups:
                groups[o] = []
                order.append(o)
            if len(groups[o]) < max_events:
                groups[o].append(e)
        gl = [(o, groups[o]) for o in order]
        a, b = validate(ctx, 'Trace_HardCore', COST_CFG, gl, 'trace.HardCore.' + name)
        tot += a
        hard = sum(1 for e in cv for p in e['pairs'] if p['ncore'] > 0)
        ctx.stage('trace.HardCore.' + name, prism_objects=len(gl), objects_accepted=a, cost_evaluations_accepted=b, pair_evaluations_with_core_points=hard, source=info)
        if gl:
            ctx.sample({'trace_event': gl[0][1][-1]})
    return tot
